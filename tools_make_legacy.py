#!/venv/bin/python
"""Files "from an earlier version of the tool" (/verif/legacy/generator/*.py + index.json): generated once with the
repository as committed at the time of writing (git HEAD of /repo), kept as static artefacts.  Checks plant them
on the simulated disk as files the user already owns; whatever the working tree's generator does next to them, they
belong to *their* parameter sets."""
import json, os, subprocess, sys, tempfile, shutil
OUT = os.path.join(os.path.dirname(os.path.abspath(__file__)), "legacy", "generator")
BASE = {"seed": 5, "width": 2, "length": 2, "max_reward": 3, "rb": 0.1, "lb": 0.1, "tb": 0.1, "lt": 0.3, "force_down": False}
FLAGS = {"seed": "-s", "width": "-w", "length": "-l", "max_reward": "-m", "rb": "-p", "lb": "-q", "tb": "-r", "lt": "-t"}

def main():
    head = subprocess.run(["git", "-C", "/repo", "rev-parse", "HEAD"], capture_output=True, text=True).stdout.strip()
    tmp = tempfile.mkdtemp(prefix="cr-legacy-", dir="/dev/shm")
    try:
        src = os.path.join(tmp, "src")
        subprocess.run(["git", "-C", "/repo", "worktree", "add", "--detach", "-q", src, "HEAD"], check=True)
        work = os.path.join(tmp, "work")
        os.makedirs(os.path.join(work, "inputs"))
        index = {}
        sets = [dict(BASE)]
        for key in ("rb", "lb", "tb", "lt"):
            for k in (28, 56, 57, 29, 58):
                sets.append(dict(BASE, **{key: k / 100}))
        sets.append(dict(BASE, force_down=True))
        sets.append(dict(BASE, seed=6))
        for p in sets:
            before = set(os.listdir(os.path.join(work, "inputs")))
            argv = [sys.executable, os.path.join(src, "roberta_generator.py")]
            for k, fl in FLAGS.items():
                argv += [fl, repr(p[k])]
            if p["force_down"]:
                argv.append("-f")
            subprocess.run(argv, cwd=work, check=True, env=dict(os.environ, PYTHONDONTWRITEBYTECODE="1"))
            new = sorted(set(os.listdir(os.path.join(work, "inputs"))) - before)
            if len(new) == 1:
                index[new[0]] = p
        os.makedirs(OUT, exist_ok=True)
        for fn in os.listdir(OUT):
            os.remove(os.path.join(OUT, fn))
        for fn in index:
            shutil.copy(os.path.join(work, "inputs", fn), os.path.join(OUT, fn))
        json.dump({"generated_by": "roberta_generator.py at /repo commit " + head, "files": index},
                  open(os.path.join(OUT, "index.json"), "w"), indent=1, sort_keys=True)
        print("wrote %d legacy files (repo %s)" % (len(index), head[:8]))
    finally:
        subprocess.run(["git", "-C", "/repo", "worktree", "remove", "--force", os.path.join(tmp, "src")])
        shutil.rmtree(tmp, ignore_errors=True)
main()
