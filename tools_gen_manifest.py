#!/venv/bin/python
"""Regenerates MANIFEST.json from the table below (kept as code so it stays valid and consistent)."""
import json, os
HERE = os.path.dirname(os.path.abspath(__file__))
PY = "/venv/bin/python"
CLAIMED = {
 "C10": ("3.C10", "Seeded simulation of a client that owns 1-4 game descriptions and issues sequences of solves (same object, fresh object, toggled pruning flag, run_games batches, restarts) under seeded log level, stack depth, PRNG pollution and Ctrl-C/kill at a seeded step; after every op every description must be type- and bit-identical to its snapshot and every completed solve must equal what a never-used forked process returns for that description and flag.",
         "Sampling, not proof. Oracle = same code in a pristine forked process on a private copy (decides repeatability/isolation, not numerical correctness). Games whose pristine solve diverges are discarded."),
}
PENDING = {k: "claimed in DESIGN.md; check under construction in this commit, will move to checks[]" for k in ("C11","C12","C15","C16","C17")}
NA = {
 "C01": "Pure function of (game, prune flag): no schedule, clock, fault or history to vary; needs an exact reference solver, i.e. a different technique.",
 "C02": "Pure function of the game: conditioned expected rewards depend on one input only; nothing for a simulator to interleave or fault.",
 "C03": "The dead-branch defect is fixed by element positions inside one input list, not by any interleaving, restart or fault the simulator could choose.",
 "C04": "Strategy sets are a pure function of the converged values of one call.",
 "C05": "A relation between two outputs of one call on one input.",
 "C06": "Quantifies over inputs only; there is no fault after which progress would have to resume (the step clock built here is used for C11's bounded-liveness clause instead).",
 "C07": "Backward search is a pure function of a graph (its recursion-limit failure is nevertheless exercised, and repaired, through C11's tall boards).",
 "C08": "Bisimilarity of emitted games to the board rules is a pure function of (board, probabilities); the file is only a conduit.",
 "C09": "Rejection of malformed games is a pure function of the description (its batch-runner clause is exercised as C12's failing-game fault, not claimed).",
 "C13": "A metamorphic relation between independent calls on different inputs; lists, not hash containers, fix every iteration order, so no schedule exists to vary.",
 "C14": "A relation between outputs of one call on one input.",
}

def main():
    checks = []
    for pid, (ref, text, note) in sorted(CLAIMED.items()):
        checks.append({
            "property_id": pid,
            "quick_cmd": "%s /verif/simcheck check %s --tier quick" % (PY, pid),
            "thorough_cmd": "%s /verif/simcheck check %s --tier thorough" % (PY, pid),
            "evidence_file": "/verif/evidence/%s.json" % pid,
            "replay_cmd_template": "%s /verif/simcheck replay {path}" % PY,
            "engine": "simcheck",
            "level_claimed": {"category": "exploration", "text": text, "design_ref": "DESIGN.md section " + ref},
            "level_note": note,
            "technique": "deterministic simulation with fault injection (seeded op/fault sequences, pristine-process reference model, ddmin-minimised replay)",
        })
    na = [{"property_id": k, "reason": v} for k, v in sorted({**NA, **PENDING}.items())]
    m = {
        "version": 1,
        "setup_cmd": "%s /verif/simcheck selftest-determinism --runs 24" % PY,
        "hooks": {"guard": "CONDITIONALREWARDS_VERIF", "enable": "no hook exists: every seam is a Python module attribute (builtins.open, time.*, random, sys.modules, sys.monitoring) patched from outside; checks load /repo's working tree (or VERIF_REPO_DIR) directly",
                  "baseline_off_cmd": "cd /repo && /venv/bin/python -m pytest -ra -q -p no:cacheprovider --timeout=900",
                  "source_commits": [], "add_only": True},
        "engines": [{"name": "simcheck", "path": "/verif/simcheck", "serves_properties": sorted(CLAIMED),
                     "kind_free_text": "single-process deterministic simulator written for this repo: SimFS/SimClock/StepClock(sys.monitoring)/restart/pristine forked reference, seeded runs on a fork pool, ddmin shrinker, JSON replay"}],
        "checks": checks,
        "not_applicable": na,
        "notes": "See DESIGN.md. fix: commits in /repo and open findings are listed in known_findings.json.",
    }
    with open(os.path.join(HERE, "MANIFEST.json"), "w") as f:
        json.dump(m, f, indent=1)
        f.write("\n")

if __name__ == "__main__":
    main()
