#!/venv/bin/python
"""Regenerates MANIFEST.json from the table below (kept as code so it stays valid and consistent)."""
import json, os
HERE = os.path.dirname(os.path.abspath(__file__))
PY = "/venv/bin/python"
CLAIMED = {
 "C10": ("3.C10", "Seeded simulation of a client that owns 1-4 game descriptions and issues sequences of solves (same object, fresh object, toggled pruning flag, run_games batches, restarts) under seeded log level, stack depth, PRNG pollution and Ctrl-C/kill at a seeded step; after every op every description must be type- and bit-identical to its snapshot and every completed solve must equal what a never-used forked process returns for that description and flag.",
         "Sampling, not proof. Oracle = same code in a pristine forked process on a private copy (decides repeatability/isolation, not numerical correctness). Games whose pristine solve diverges are discarded."),
 "C11": ("3.C11", "Seeded simulation of the generator -> file -> reader -> solver pipeline across process restarts on one simulated disk: CLI and manual entry point on tiny/small/wide/tall boards and near-0/near-1 probabilities, planted longer/torn/garbage files at the target path, OSError at open/n-th write/close, Ctrl-C/kill inside the writer followed by clean regeneration; after every normal exit: exactly one file, byte-identical to what an empty disk gets, loads to game_a/b/c, structure and validation hold, and each game is solved or reported unsolvable within a step-clock bound that separates divergence from slow convergence.",
         "Sampling, not proof. Divergence = constant per-sweep diff over 500 sweeps (read from the live frame); cap hits are inconclusive, never violations. Solve clause exercised for break probabilities in [0.01,0.99]. One open known finding (diagnostic diverges)."),
 "C12": ("3.C12", "Seeded simulation of batch runs through the API (re-using the same dict objects across batches) and through the CLI (write file, restart, main()) in seeded orders/subsets with failing games first/between/last/all, under clock steps, jumps and freezes, log levels and stack depth; every entry must equal what a never-used forked process returns for solving that game alone, failures must be recorded as messages and must not affect neighbours, keys must be name/name_no_prune in run order.",
         "Sampling, not proof. Expected values come from the same code in a pristine process. total_time is excluded (probe only). One open known finding (X / X_no_prune name collision)."),
 "C15": ("3.C15", "Seeded simulation of board generation inside a long-lived process shared with other users of the global PRNG and across restarts with seeded OS entropy: every board must be in range and identical to the one a never-used process produces; CLI files must be byte-identical to the empty-disk reference; every boundary value of the eight range checks must be refused with ValueError with no write-mode open and an unchanged disk; pooled loose-tile frequency over independent seeds within 6 sigma.",
         "Sampling, not proof (boundary sweep is complete for the listed values). Frequency test pools only boards with distinct seeds."),
 "C16": ("3.C16", "Seeded simulation of the solver CLI on one simulated disk: input files in five textual styles, directories and absolute paths; -s runs under seeded clock/log level/stack depth, with OSError at open/n-th write/close of the report or open/read of the input, Ctrl-C/kill at a seeded step inside report writing (torn or lost buffered data), planted longer/torn/garbage reports; after every normal exit exactly outputs/<stem>.txt changed and parses back, block by block and line by line, to the dict run_games returned in that invocation; the reader must produce exactly the games the text denotes; a faulted run may fail but never succeed silently, and the next clean run must repair the report.",
         "Sampling, not proof. Oracle = run_games' own return value captured at the module attribute; report grammar = current labels."),
 "C17": ("3.C17", "Seeded sequences of generator invocations on one simulated disk with whole-percent probabilities biased to neighbouring percentages, plus exhaustive sweeps k=1..99 of each probability field (CLI and manual entry point): every created path must state every parameter, and no path may ever be written by two different parameter sets (a silently lost file).",
         "Random part is sampling; the k-sweeps are complete per field for one base parameter set. Name parsing is order-independent; the collision invariant is format-independent."),
}
PENDING = {}
NA = {
 "C01": "Pure function of (game, prune flag): no schedule, clock, fault or history to vary; needs an exact reference solver, i.e. a different technique.",
 "C02": "Pure function of the game: conditioned expected rewards depend on one input only; nothing for a simulator to interleave or fault.",
 "C03": "The dead-branch defect is fixed by element positions inside one input list, not by any interleaving, restart or fault the simulator could choose.",
 "C04": "Strategy sets are a pure function of the converged values of one call.",
 "C05": "A relation between two outputs of one call on one input.",
 "C06": "Quantifies over inputs only; there is no fault after which progress would have to resume (the step clock built here is used for C11's bounded-liveness clause instead).",
 "C07": "Backward search is a pure function of a graph (its recursion-limit failure is nevertheless exercised, and repaired, through C11's tall boards).",
 "C08": "Bisimilarity of emitted games to the board rules is a pure function of (board, probabilities); the file is only a conduit.",
 "C09": "Rejection of malformed games is a pure function of the description (its batch-runner clause is exercised as C12's failing-game fault, not claimed).",
 "C13": "A metamorphic relation between independent calls on different inputs; lists, not hash containers, fix every iteration order, so no schedule exists to vary.",
 "C14": "A relation between outputs of one call on one input.",
}

def main():
    checks = []
    for pid, (ref, text, note) in sorted(CLAIMED.items()):
        checks.append({
            "property_id": pid,
            "quick_cmd": "%s /verif/simcheck check %s --tier quick" % (PY, pid),
            "thorough_cmd": "%s /verif/simcheck check %s --tier thorough" % (PY, pid),
            "evidence_file": "/verif/evidence/%s.json" % pid,
            "replay_cmd_template": "%s /verif/simcheck replay {path}" % PY,
            "engine": "simcheck",
            "level_claimed": {"category": "exploration", "text": text, "design_ref": "DESIGN.md section " + ref},
            "level_note": note,
            "technique": "deterministic simulation with fault injection (seeded op/fault sequences, pristine-process reference model, ddmin-minimised replay)",
        })
    na = [{"property_id": k, "reason": v} for k, v in sorted({**NA, **PENDING}.items())]
    m = {
        "version": 1,
        "setup_cmd": "%s /verif/simcheck selftest-determinism --runs 24" % PY,
        "hooks": {"guard": "CONDITIONALREWARDS_VERIF", "enable": "no hook exists: every seam is a Python module attribute (builtins.open, time.*, random, sys.modules, sys.monitoring) patched from outside; checks load /repo's working tree (or VERIF_REPO_DIR) directly",
                  "baseline_off_cmd": "cd /repo && /venv/bin/python -m pytest -ra -q -p no:cacheprovider --timeout=900",
                  "source_commits": [], "add_only": True},
        "engines": [{"name": "simcheck", "path": "/verif/simcheck", "serves_properties": sorted(CLAIMED),
                     "kind_free_text": "single-process deterministic simulator written for this repo: SimFS/SimClock/StepClock(sys.monitoring)/restart/pristine forked reference, seeded runs on a fork pool, ddmin shrinker, JSON replay"}],
        "checks": checks,
        "not_applicable": na,
        "notes": "See DESIGN.md. fix: commits in /repo and open findings are listed in known_findings.json.",
    }
    with open(os.path.join(HERE, "MANIFEST.json"), "w") as f:
        json.dump(m, f, indent=1)
        f.write("\n")

if __name__ == "__main__":
    main()
