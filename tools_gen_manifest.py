#!/venv/bin/python
"""Regenerates MANIFEST.json from the table below (kept as code so it stays valid and consistent)."""
import json, os
HERE = os.path.dirname(os.path.abspath(__file__))
PY = "/venv/bin/python"
ENV = ("log level, stack depth, global-PRNG pollution, stepping/frozen/backward/jumping clock (file mtimes included), "
       "OSError at open/n-th write/close/rename/mkdir/remove, Ctrl-C (a KeyboardInterrupt: the code's own handlers, SIGINT handlers and exit hooks run) "
       "and kill (nothing runs any more; torn/lost buffered writes) at a seeded line or a few lines after the k-th file-system event, "
       "short writes on unbuffered files, MemoryError at a seeded step, process restarts (interpreter-wide state reset) versus calls inside one long-lived process, "
       "a simulated home/temp directory, inputs/ or outputs/ on file systems of their own (EXDEV), a host process with warnings as errors, "
       "threads started by the code scheduled one at a time by a seeded scheduler")
CLAIMED = {
 "C10": ("3.C10", "Seeded simulation of a client that owns 1-4 game descriptions (some sharing list objects, some differing in one player or reward only) and issues sequences of solves (same object, fresh object, toggled pruning flag, auxiliary calls, run_games batches, restarts; 1-2% marathon sessions of hundreds of solves; quiet stretches of 2^8..2^16 identical tiny solves between two rounds of probe games; the caller editing in place the lists a solve returned and its own description, descriptions with aliased rows, floods of thousands of distinct games, two processes calling run_games at the same time) under " + ENV + "; after every op every description must be type- and bit-identical to its snapshot and every completed solve must equal what a brand-new interpreter with another string-hash seed returns for that description and flag.",
         "Sampling, not proof. Oracle = same code in a pristine process (fresh interpreter, other PYTHONHASHSEED) on a private copy (decides repeatability/isolation, not numerical correctness). Games whose pristine solve diverges are discarded. Intactness at the instant of an injected interrupt is a probe, not an invariant (the property quantifies over solves, not crash points)."),
 "C11": ("3.C11", "Seeded simulation of the generator -> file -> reader -> solver pipeline on one simulated disk: CLI (all equivalent spellings) and manual entry point, across restarts and repeatedly inside one process, on tiny/small/wide/tall/huge boards and every tile count 1..260 (thorough: 1..900) once, hand boards as lists or tuples, two generator runs at the same time in one folder (file-system events interleaved by a seeded token), whole-percent, many-digit and near-0/near-1 probabilities, under a simulated locale encoding and " + ENV + ", with planted longer/torn/garbage files and clean regeneration after every injected failure; after every normal exit: exactly one game file, byte-identical to what an empty disk gets, loads to game_a/b/c, structure and validation hold, each game is solved or reported unsolvable within a step-clock bound that separates divergence from slow convergence, and the solver CLI on the file finishes under any clock.",
         "Sampling, not proof. Divergence = constant per-sweep diff over 500 sweeps (read from the live frame); cap hits are inconclusive, never violations. Solve clause exercised for break probabilities in [0.01,0.99]. One open known finding (a diagnostic diverges). One seeded change (trigger: a text length that is an exact multiple of 65536) is known to be missed."),
 "C12": ("3.C12", "Seeded simulation of batch runs through the API (re-using the same dict objects across batches, also after a batch aborted by Ctrl-C or MemoryError) and through the CLI (write file, restart, main(), report parsed back) in seeded orders/subsets with failing games first/between/last/all, twins differing in one type or value, games carrying their own pruning flag, empty batches, odd names, CLI runs aborted by Ctrl-C/kill and run again, two CLI runs at the same time on different files, games sharing list objects, quiet stretches of identical batches, the caller editing the returned dictionary, under " + ENV + "; every entry must equal what a brand-new interpreter (other string-hash seed) returns for solving that game alone, messages must equal those of a single-game pristine batch, failures must not affect neighbours, keys must be name/name_no_prune in run order; exit status 0 under an I/O fault means every entry is in the report.",
         "Sampling, not proof. Expected values come from the same code in a pristine process. total_time is excluded (probe only). One open known finding (X / X_no_prune name collision)."),
 "C15": ("3.C15", "Seeded simulation of board generation inside a long-lived process shared with other users of the global PRNG and across restarts with seeded OS entropy, with the caller editing returned boards in place, quiet stretches of 2^8..2^16 identical calls and two generator runs at the same time, under " + ENV + ": every board must be in range and identical to the one a brand-new interpreter (other string-hash seed) produces; CLI files must be byte-identical to the empty-disk reference (also when rerun after an injected failure, and for sibling parameter sets that share a file name) and must depict the very board gen_rnd_board returns; every boundary value and pair of boundary values of the eight range checks must be refused with ValueError with no write-mode open and an unchanged disk; pooled loose-tile frequency over independent seeds within 6 sigma.",
         "Sampling, not proof (the boundary sweep is complete for the listed values and pairs). Frequency test pools only boards with distinct seeds. The comment cross-check is skipped when the comment is absent or drawn differently."),
 "C16": ("3.C16", "Seeded simulation of the solver on one simulated disk: input files in six textual styles, random stems over [A-Za-z0-9_], directories, absolute paths and equivalent path spellings, a few non-ASCII names, files of > 128 KiB edited in the middle; CLI runs and the same reader/run_games/writer calls inside one long-lived session (which also edits what it read and got back), two CLI runs at the same time on different files, bare file names in the working directory, under a simulated locale encoding and " + ENV + ", with planted longer/torn/garbage reports and same-length edits within the mtime granularity; after every normal exit exactly outputs/<stem>.txt (of the user's files) changed and parses back, block by block and line by line, to the dict run_games returned in that invocation; the reader must produce exactly the games the text denotes; a faulted run may fail but never succeed silently, and the next clean run must repair the report.",
         "Sampling, not proof. Oracle = run_games' own return value captured at the module attribute; report grammar = current labels."),
 "C17": ("3.C17", "Seeded sequences of generator invocations (CLI in all equivalent spellings, manual entry point; across restarts and inside one driver process; some under injected OSErrors, logging levels, deep stacks) on one simulated disk with whole-percent probabilities biased to neighbouring percentages, huge seeds and maximum rewards, files written by an earlier version of the tool already on the disk, two runs for neighbouring percentages at the same time, plus exhaustive sweeps k=1..99 of each probability field: every created path must state every parameter, and no path may ever receive data from two different parameter sets (a silently lost file).",
         "Random part is sampling; the k-sweeps are complete per field for one base parameter set. Name parsing is order-independent; the collision invariant is format-independent."),
}
PENDING = {}
NA = {
 "C01": "Pure function of (game, prune flag): no schedule, clock, fault or history to vary; needs an exact reference solver, i.e. a different technique.",
 "C02": "Pure function of the game: conditioned expected rewards depend on one input only; nothing for a simulator to interleave or fault.",
 "C03": "The dead-branch defect is fixed by element positions inside one input list, not by any interleaving, restart or fault the simulator could choose.",
 "C04": "Strategy sets are a pure function of the converged values of one call.",
 "C05": "A relation between two outputs of one call on one input.",
 "C06": "Quantifies over inputs only; there is no fault after which progress would have to resume (the step clock built here is used for C11's bounded-liveness clause instead).",
 "C07": "Backward search is a pure function of a graph (its recursion-limit failure is nevertheless exercised, and repaired, through C11's tall boards).",
 "C08": "Bisimilarity of emitted games to the board rules is a pure function of (board, probabilities); the file is only a conduit.",
 "C09": "Rejection of malformed games is a pure function of the description (its batch-runner clause is exercised as C12's failing-game fault, not claimed).",
 "C13": "A metamorphic relation between independent calls on different inputs; lists, not hash containers, fix every iteration order, so no schedule exists to vary.",
 "C14": "A relation between outputs of one call on one input.",
}

def main():
    checks = []
    for pid, (ref, text, note) in sorted(CLAIMED.items()):
        checks.append({
            "property_id": pid,
            "quick_cmd": "%s /verif/simcheck check %s --tier quick" % (PY, pid),
            "thorough_cmd": "%s /verif/simcheck check %s --tier thorough" % (PY, pid),
            "evidence_file": "/verif/evidence/%s.json" % pid,
            "replay_cmd_template": "%s /verif/simcheck replay {path}" % PY,
            "engine": "simcheck",
            "level_claimed": {"category": "exploration", "text": text, "design_ref": "DESIGN.md section " + ref},
            "level_note": note,
            "technique": "deterministic simulation with fault injection (seeded op/fault sequences, pristine-process reference model, ddmin-minimised replay)",
        })
    na = [{"property_id": k, "reason": v} for k, v in sorted({**NA, **PENDING}.items())]
    m = {
        "version": 1,
        "setup_cmd": "%s /verif/simcheck selftest-determinism --runs 24" % PY,
        "hooks": {"guard": "CONDITIONALREWARDS_VERIF", "enable": "no hook exists: every seam is a Python module attribute (builtins.open, time.*, random, sys.modules, sys.monitoring) patched from outside; checks load /repo's working tree (or VERIF_REPO_DIR) directly",
                  "baseline_off_cmd": "cd /repo && /venv/bin/python -m pytest -ra -q -p no:cacheprovider --timeout=900",
                  "source_commits": [], "add_only": True},
        "engines": [{"name": "simcheck", "path": "/verif/simcheck", "serves_properties": sorted(CLAIMED),
                     "kind_free_text": "single-process deterministic simulator written for this repo: SimFS/SimClock/StepClock(sys.monitoring)/restart/signal+atexit seams/pristine reference process, seeded runs on a fork pool, ddmin shrinker, JSON replay"}],
        "checks": checks,
        "not_applicable": na,
        "notes": "See DESIGN.md (section 8 = as-built record). fix: commits in /repo and open findings are listed in known_findings.json. Self-tests: simcheck selftest-determinism / selftest-mutants / selftest-benign.",
    }
    with open(os.path.join(HERE, "MANIFEST.json"), "w") as f:
        json.dump(m, f, indent=1)
        f.write("\n")

if __name__ == "__main__":
    main()
