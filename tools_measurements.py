#!/venv/bin/python
"""Prints the measurement table of DESIGN.md 8.5 from the evidence files."""
import json, os, sys
HERE = os.path.dirname(os.path.abspath(__file__))
def row(path):
    e = json.load(open(path)); c = e["coverage"]
    faults = sum(v for k, v in c["faults_fired"].items())
    kinds = len(c["faults_fired"])
    return "| %s | %s | %d | %d | %d | %.2e | %d | %d kinds / %d firings | %d | %d | %s | %.0f s |" % (
        e["property_id"], e["tier"], c["evaluations"], c["distinct_nontrivial"], c["ops"], c["sim_steps"],
        c["runs_per_hour"], kinds, faults, c["distinct_world_states"], c["distinct_run_digests"],
        ", ".join("%s: %d" % kv for kv in c["known_findings_hit"].items()) or "-", e["wall_s"])
print("| property | tier | runs | distinct non-trivial | ops | simulated steps | runs/hour | faults | distinct world states | distinct run digests | known findings hit | wall |")
print("|---|---|---|---|---|---|---|---|---|---|---|---|")
for sub in ("", "thorough"):
    for p in ("C10", "C11", "C12", "C15", "C16", "C17"):
        f = os.path.join(HERE, "evidence", sub, p + ".json")
        if os.path.exists(f):
            print(row(f))
