"""Process model: loading the repository from its working tree, simulated
process restarts, and the pristine reference (forked from an untouched zygote).

Nothing here stubs repository code: the five modules are compiled once from
the files under VERIF_REPO_DIR (default /repo) when the check starts, and every
simulated "process" executes those code objects in brand-new module objects.
"""
import importlib
import importlib.abc
import importlib.util
import logging
import os
import pickle
import signal
import socket
import struct
import sys
import types

REPO_DIR = os.path.realpath(os.environ.get("VERIF_REPO_DIR", "/repo"))


class HarnessError(Exception):
    """A failure of the harness itself (never a property violation)."""


class RepoSnapshot:
    """Source of every top-level module of the repository, compiled once."""

    def __init__(self, repo_dir=REPO_DIR):
        self.repo_dir = repo_dir
        self.codes = {}
        self.codes_opt = {}         # the same sources as `python -OO` compiles them (asserts and docstrings gone)
        self.paths = {}
        self.sources = {}
        for fn in sorted(os.listdir(repo_dir)):
            if not fn.endswith(".py"):
                continue
            name = fn[:-3]
            path = os.path.join(repo_dir, fn)
            with open(path, "r", encoding="utf-8") as f:
                src = f.read()
            self.sources[name] = src
            self.paths[name] = path
            self.codes[name] = compile(src, path, "exec", dont_inherit=True, optimize=0)
            self.codes_opt[name] = compile(src, path, "exec", dont_inherit=True, optimize=2)

    def all_code_objects(self):
        out = []

        def rec(c):
            out.append(c)
            for k in c.co_consts:
                if isinstance(k, types.CodeType):
                    rec(k)

        for c in list(self.codes.values()) + list(self.codes_opt.values()):
            rec(c)
        return out

    def digest(self):
        import hashlib
        hh = hashlib.sha256()
        for n in sorted(self.sources):
            hh.update(n.encode())
            hh.update(self.sources[n].encode())
        return hh.hexdigest()[:16]


class _Finder(importlib.abc.MetaPathFinder, importlib.abc.Loader):
    def __init__(self, snap):
        self.snap = snap

    def find_spec(self, name, path=None, target=None):
        if name in self.snap.codes:
            return importlib.util.spec_from_loader(name, self, origin=self.snap.paths[name])
        return None

    def create_module(self, spec):
        return None

    def exec_module(self, module):
        name = module.__name__
        # The simulated installation directory is the simulated working directory (as in
        # `cd repo && python tool.py`): code that locates inputs/ or outputs/ next to its own
        # file lands on the simulated disk, not in the real repository.  Tracebacks and the
        # step clock still see the real source path (co_filename).
        module.__file__ = os.path.join(SCRIPT_DIR or os.path.dirname(self.snap.paths[name]), name + ".py")
        exec((self.snap.codes_opt if OPTIMIZE else self.snap.codes)[name], module.__dict__)


_SNAP = None
_FINDER = None
SCRIPT_DIR = None       # set by the world to its scratch root
OPTIMIZE = 0            # 2: the simulated processes run as `python -OO`


def install(snap):
    """Make `import tad` etc. resolve to the snapshot (idempotent)."""
    global _SNAP, _FINDER
    if _FINDER is not None:
        sys.meta_path.remove(_FINDER)
    _SNAP = snap
    _FINDER = _Finder(snap)
    sys.meta_path.insert(0, _FINDER)
    sys.dont_write_bytecode = True


def snapshot():
    return _SNAP


def restart():
    """Simulated process restart: fresh module objects, fresh logging config.

    Only files survive.  (The global PRNG and sys.argv are re-seeded by the
    world, which owns those seams.)
    """
    for name in _SNAP.codes:
        sys.modules.pop(name, None)
    root = logging.getLogger()
    for hd in list(root.handlers):
        root.removeHandler(hd)
    for flt in list(root.filters):
        root.removeFilter(flt)
    root.setLevel(logging.WARNING)
    logging.disable(logging.NOTSET)


def mod(name):
    return importlib.import_module(name)


# ---------------------------------------------------------------------------
# pristine reference: zygote forked before the worker touches anything
# ---------------------------------------------------------------------------

def _send(sock, obj):
    data = pickle.dumps(obj, protocol=4)
    sock.sendall(struct.pack("<Q", len(data)) + data)


def _recv(sock):
    hdr = b""
    while len(hdr) < 8:
        c = sock.recv(8 - len(hdr))
        if not c:
            raise EOFError
        hdr += c
    (n,) = struct.unpack("<Q", hdr)
    buf = bytearray()
    while len(buf) < n:
        c = sock.recv(min(1 << 20, n - len(buf)))
        if not c:
            raise EOFError
        buf += c
    return pickle.loads(bytes(buf))


class RefServer:
    """Executes requests each in a brand-new child of an untouched zygote.

    handler(kind, payload) is looked up in sim.refimpl *inside the child*.
    The answer is what the same repository code does in a process that has
    never run anything else: the executable reference for "alone", "fresh",
    "first time".
    """

    WALL_LIMIT = 1200
    _BOOT = ("import sys, socket\n"
             "sys.dont_write_bytecode = True\n"
             "sys.path.insert(0, sys.argv[2])\n"
             "from sim import proc\n"
             "proc.install(proc.RepoSnapshot())\n"
             "from sim import refimpl\n"
             "refimpl.prepare()\n"
             "proc.RefServer._serve(proc.RefServer, socket.socket(fileno=int(sys.argv[1])))\n")

    def __init__(self, hashseed=None):
        """hashseed None: the zygote is forked from this (so far untouched) worker.
        hashseed n: the zygote is a brand-new interpreter started with PYTHONHASHSEED=n - a fresh
        process in the full sense: its str/bytes hashing, hence the iteration order of every set and
        the collision pattern of every dict, differs from this worker's, as it does between any two
        real runs of the tool (hash randomisation is on by default)."""
        self.cache = {}
        self.calls = 0
        self.hits = 0
        self.hashseed = hashseed
        a, b = socket.socketpair()
        if hashseed is None:
            from sim import refimpl
            refimpl.prepare()
            pid = os.fork()
            if pid == 0:
                try:
                    a.close()
                    self._serve(b)
                finally:
                    os._exit(0)
            self.popen = None
        else:
            import subprocess
            env = dict(os.environ, PYTHONHASHSEED=str(int(hashseed)), PYTHONUTF8="1", PYTHONDONTWRITEBYTECODE="1",
                       VERIF_REPO_DIR=REPO_DIR)
            verif_dir = os.path.dirname(os.path.dirname(os.path.abspath(__file__)))
            self.popen = subprocess.Popen([sys.executable, "-c", self._BOOT, str(b.fileno()), verif_dir],
                                          pass_fds=(b.fileno(),), env=env, stdin=subprocess.DEVNULL, cwd="/")
            pid = self.popen.pid
        b.close()
        self.sock = a
        self.pid = pid

    def _serve(self, sock):
        signal.signal(signal.SIGINT, signal.SIG_IGN)
        while True:
            try:
                req = _recv(sock)
            except EOFError:
                return
            pid = os.fork()
            if pid == 0:
                code = 0
                try:
                    signal.alarm(self.WALL_LIMIT)
                    from sim import refimpl
                    kind, payload = req
                    try:
                        res = ("ok", refimpl.handle(kind, payload))
                    except BaseException as e:  # noqa
                        import traceback
                        res = ("harness-exc", "%s: %s\n%s" % (type(e).__name__, e, traceback.format_exc()))
                    _send(sock, ("res", res))
                except BaseException:
                    code = 3
                finally:
                    os._exit(code)
            _, status = os.waitpid(pid, 0)
            _send(sock, ("done", status))

    def call(self, kind, payload, key=None):
        self.calls += 1
        payload = dict(payload, _optimize=OPTIMIZE)
        if key is not None:
            key = (key, OPTIMIZE)
        if key is not None and key in self.cache:
            self.hits += 1
            return self.cache[key]
        _send(self.sock, (kind, payload))
        res = None
        while True:
            tag, val = _recv(self.sock)
            if tag == "res":
                res = val
            else:
                status = val
                break
        if res is None:
            raise HarnessError("reference child died (status %r) on %s" % (status, kind))
        if res[0] != "ok":
            raise HarnessError("reference child failed on %s: %s" % (kind, res[1]))
        if key is not None:
            if len(self.cache) >= 30000:
                self.cache.clear()      # pure function results: dropping them only costs time
            self.cache[key] = res[1]
        return res[1]

    def close(self):
        try:
            self.sock.close()
        except OSError:
            pass
        try:
            if self.popen is not None:
                self.popen.wait(timeout=30)
            else:
                os.waitpid(self.pid, 0)
        except Exception:
            pass
