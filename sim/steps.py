"""StepClock: simulated time for synchronous code, on sys.monitoring (3.12).

Simulated time = number of repository function entries + counted line events.
Two granularities:
  coarse  function entries + `while` loop headers (cheap; budgets, sweep records)
  fine    function entries + every executed line (pre-emption points for
          asynchronous-interrupt injection)
Both are pure functions of the executed code path, hence deterministic.

The clock can
  * raise SimInterrupt at step k of an operation (Ctrl-C / kill at an arbitrary
    instant),
  * bound an operation and tell *divergence* from slow convergence by watching
    the per-sweep `diff` of the running `while diff > threshold` loop (read from
    the live frame), see DESIGN.md 2.3.
"""
import _thread
import ast
import sys

mon = sys.monitoring
TOOL = 4


class SimInterrupt(KeyboardInterrupt):
    """Injected asynchronous interruption (Ctrl-C / kill).

    It *is* a KeyboardInterrupt, so `except KeyboardInterrupt:` clean-up code in the repository runs
    exactly as it does when a user presses Ctrl-C.  For a kill nothing may run at all: see `dead`."""


class Divergent(BaseException):
    """The running loop provably stopped converging (constant per-sweep diff)."""

    def __init__(self, info):
        super().__init__(info)
        self.info = info


class Inconclusive(BaseException):
    """Budget exhausted without evidence of divergence."""

    def __init__(self, info):
        super().__init__(info)
        self.info = info


def _while_headers(src):
    lines = set()
    for node in ast.walk(ast.parse(src)):
        if isinstance(node, ast.While):
            lines.add(node.lineno)
    return lines


class StepClock:
    CHECK_FROM = 1500      # sweeps before the first divergence test
    CHECK_EVERY = 500
    WINDOW = 500           # must equal CHECK_EVERY
    RATIO_EPS = 1e-6       # |diff_n / diff_{n-WINDOW} - 1| below this => constant diff

    def __init__(self, snap):
        self.snap = snap
        self.headers = {}
        for name, src in snap.sources.items():
            for ln in _while_headers(src):
                self.headers[(snap.paths[name], ln)] = True
        self.files = set(snap.paths.values())
        self.steps = 0
        self.fine = False
        self.interrupt_at = None
        self.sweep_cap = None
        self.step_cap = None
        self.loop_frame = None
        self.loop_site = None
        self.sweeps = 0
        self.diffs = []
        self.prev_vals = None
        self.prev2_vals = None
        self.max_sweeps = 0
        self.total_sweeps = 0
        self.interrupt_site = None
        self.installed = False
        self.on_interrupt = None
        self.interrupt_exc = None
        self.sched = None           # scheduler of the threads the simulated process started (sim.threads), if any
        self.deliver = None         # custom delivery of the interruption (a signal handler the code installed)
        self.dead = False           # the simulated process was killed: no repository line may execute any more

    # -- installation -----------------------------------------------------
    def install(self):
        if self.installed:
            return
        if mon.get_tool(TOOL) is None:
            mon.use_tool_id(TOOL, "simclock")
        mon.register_callback(TOOL, mon.events.PY_START, self._on_start)
        mon.register_callback(TOOL, mon.events.LINE, self._on_line)
        ev = mon.events.PY_START | mon.events.LINE
        for c in self.snap.all_code_objects():
            mon.set_local_events(TOOL, c, ev)
        self.installed = True

    def uninstall(self):
        if not self.installed:
            return
        for c in self.snap.all_code_objects():
            mon.set_local_events(TOOL, c, 0)
        mon.register_callback(TOOL, mon.events.PY_START, None)
        mon.register_callback(TOOL, mon.events.LINE, None)
        mon.free_tool_id(TOOL)
        self.installed = False

    # -- per-operation arming ----------------------------------------------
    def arm(self, fine=False, interrupt_at=None, sweep_cap=None, step_cap=None, interrupt_exc=None):
        self.interrupt_exc = interrupt_exc
        self.dead = False
        if fine != self.fine or fine:
            mon.restart_events()
        self.fine = fine
        self.steps = 0
        self.interrupt_at = interrupt_at
        self.sweep_cap = sweep_cap
        self.step_cap = step_cap
        self.loop_frame = None
        self.loop_site = None
        self.sweeps = 0
        self.max_sweeps = 0
        self.total_sweeps = 0
        self.diffs = []
        self.prev_vals = None
        self.prev2_vals = None
        self.interrupt_site = None

    def threads_started(self):
        """First thread of the simulated process: every line becomes a pre-emption point from here on."""
        if not self.fine:
            self.fine = True
            mon.restart_events()
            if self.step_cap is not None:
                self.step_cap *= 40         # budgets were sized in coarse steps

    def disarm(self):
        self.sched = None
        self.dead = False
        self.deliver = None
        self.interrupt_at = None
        self.sweep_cap = None
        self.step_cap = None
        self.loop_frame = None
        self.prev_vals = None
        self.prev2_vals = None
        return self.steps

    # -- callbacks -----------------------------------------------------------
    def _tick(self, code, line):
        self.steps += 1
        if self.dead:
            # a killed process executes nothing: every handler / finally block the unwinding would enter
            # is cut short at its first line
            raise SimInterrupt(self.interrupt_site or "dead")
        sch = self.sched
        if sch is not None and sch.started:
            # pre-emption point of the thread scheduler (only one thread of the simulated process runs at a time)
            sch.lines += 1
            if sch.lines >= sch.next_at:
                sch.on_line(sys._getframe(2))
                if self.dead:
                    raise SimInterrupt(self.interrupt_site or "dead")
        ia = self.interrupt_at
        if ia is not None and self.steps >= ia and (sch is None or not sch.started or _thread.get_ident() == sch.main.ident):
            # (signals are delivered to the main thread)
            self.interrupt_at = None
            self.interrupt_site = "%s:%s" % (code.co_name, line)
            cb = self.on_interrupt
            if cb is not None:
                cb()
            if self.interrupt_exc is not None:
                # a failing allocation: an ordinary Exception subclass raised at an arbitrary step
                raise self.interrupt_exc("injected at " + self.interrupt_site)
            dv = self.deliver
            if dv is not None and dv(sys._getframe(2)):
                # the code installed its own SIGINT handler (or ignores the signal): Python ran it here,
                # between two lines, and execution continues
                return
            raise SimInterrupt(self.interrupt_site)
        sc = self.step_cap
        if sc is not None and self.steps >= sc:
            self.step_cap = None
            raise Inconclusive({"why": "step-cap", "steps": self.steps, "site": code.co_name})

    def _on_start(self, code, offset):
        self._tick(code, code.co_firstlineno)

    def _on_line(self, code, line):
        is_header = (code.co_filename, line) in self.headers
        if not is_header:
            if not self.fine:
                return mon.DISABLE
            self._tick(code, line)
            return None
        self._tick(code, line)
        self._sweep(code, line)
        return None

    # -- sweep records and divergence test ------------------------------------
    def _sweep(self, code, line):
        frame = sys._getframe(2)
        if frame.f_code is not code:
            return
        if frame is not self.loop_frame:
            self.loop_frame = frame
            self.loop_site = code.co_name
            self.sweeps = 0
            self.diffs = []
            self.prev_vals = None
            self.prev2_vals = None
        self.sweeps += 1
        self.total_sweeps += 1
        if self.sweeps > self.max_sweeps:
            self.max_sweeps = self.sweeps
        if self.sweep_cap is None:
            return
        n = self.sweeps
        if n < self.CHECK_FROM - 2 * self.WINDOW:
            return
        loc = frame.f_locals
        d = loc.get("diff")
        if isinstance(d, (int, float)):
            self.diffs.append(d)
            if len(self.diffs) > 4 * self.WINDOW:
                del self.diffs[: 2 * self.WINDOW]
        if (n - self.CHECK_FROM) % self.CHECK_EVERY == 0:
            # WINDOW == CHECK_EVERY: prev_vals / prev2_vals are the states WINDOW / 2*WINDOW sweeps ago
            vals = self._state_values(loc)
            verdict = self._classify(vals) if n >= self.CHECK_FROM else None
            self.prev2_vals = self.prev_vals
            self.prev_vals = vals
            if verdict is not None:
                self.sweep_cap = None
                raise Divergent(verdict)
        if n >= self.sweep_cap:
            self.sweep_cap = None
            raise Inconclusive({"why": "sweep-cap", "sweeps": n, "site": self.loop_site,
                                "last_diff": self.diffs[-1] if self.diffs else None})

    @staticmethod
    def _state_values(loc):
        slf = loc.get("self")
        sl = getattr(slf, "state_list", None)
        if not isinstance(sl, list):
            return None
        out = {}
        try:
            for st in sl:
                for k, v in vars(st).items():
                    if isinstance(v, (int, float)) and not isinstance(v, bool):
                        out.setdefault(k, []).append(float(v))
        except Exception:
            return None
        return out

    def _classify(self, vals):
        """Return divergence info, or None if still (possibly slowly) converging."""
        ds = self.diffs
        if len(ds) <= self.WINDOW:
            return None
        a, b = ds[-1 - self.WINDOW], ds[-1]
        if not (a > 0 and b > 0):
            return None
        if not (a == a and b == b):     # NaN: cannot be judged
            return None
        if a in (float("inf"),) or b in (float("inf"),):
            return {"site": self.loop_site, "sweeps": self.sweeps, "diff": b, "moving": ["<inf>"]}
        if abs(b / a - 1.0) > self.RATIO_EPS:
            return None
        # the diff has been constant over a whole window: linear growth.
        # which per-state quantities grow *linearly* (same change in two consecutive
        # windows)?  Slow geometric convergers change far less in the second window.
        moving = None
        if vals is not None and self.prev_vals is not None and self.prev2_vals is not None:
            moving = []
            for k in sorted(vals):
                p, p2, c = self.prev_vals.get(k), self.prev2_vals.get(k), vals[k]
                if p is None or p2 is None or len(p) != len(c) or len(p2) != len(c):
                    continue
                d2 = max(abs(x - y) for x, y in zip(c, p))
                d1 = max(abs(x - y) for x, y in zip(p, p2))
                scale = max(abs(y) for y in p)
                if d2 > 1e-6 * (1.0 + scale) and d2 >= 0.9 * d1:
                    moving.append(k)
        if moving == []:
            # the diff is flat but no quantity has settled into linear growth yet (a slow transient
            # dominates one of the two windows): not a verdict - keep iterating; the sweep cap decides
            return None
        return {"site": self.loop_site, "sweeps": self.sweeps, "diff": b, "moving": moving}
