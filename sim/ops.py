"""Operations: the ways a client drives the real repository code.

Used unchanged by the simulated process and by the pristine reference child,
so both sides execute exactly the same call sequence.
"""
from . import proc
from .lit import enc, dec, canon

FIELDS = ("rewards", "players", "transition_list", "final_states")


def game_kwargs(desc, prune):
    kw = {k: desc[k] for k in FIELDS if k in desc}
    for k in desc:
        if k not in kw and k != "prune_states":
            kw[k] = desc[k]
    kw["prune_states"] = prune
    return kw


def solve(world, desc, prune, cfg=None):
    def thunk():
        tad = proc.mod("tad")
        return tad.StochasticGame(**game_kwargs(desc, prune)).solve()
    return world.run_op(thunk, cfg)


def solve_handle(world, handle, cfg=None):
    return world.run_op(lambda: handle.solve(), cfg)


def new_handle(world, desc, prune):
    tad = proc.mod("tad")
    return tad.StochasticGame(**game_kwargs(desc, prune))


def run_games(world, games, cfg=None):
    def thunk():
        return proc.mod("conditionalrewards").run_games(games)
    return world.run_op(thunk, cfg)


def board(world, params, cfg=None):
    def thunk():
        rg = proc.mod("roberta_generator")
        return rg.gen_rnd_board(params["seed"], params["length"], params["width"],
                                params["lt"], params["max_reward"], params["force_down"])
    return world.run_op(thunk, cfg)


GEN_OPTS = [("-s", "--seed", "seed", 0), ("-w", "--width", "width", 3), ("-l", "--length", "length", 3),
            ("-m", "--max_reward", "max_reward", 6), ("-p", "--prob_robot_break", "rb", 0.1),
            ("-q", "--prob_light_break", "lb", 0.1), ("-r", "--prob_tile_break", "tb", 0.1),
            ("-t", "--prob_loose_tile", "lt", 0.3)]


def gen_argv(p, form=None):
    """Command line for the generator.  Values are passed as the strings a user
    would type (`repr` of a float round-trips exactly through argparse's float()).
    form (an int) picks, deterministically, one of the equivalent spellings a user may
    choose: short or long options, `--opt=value`, any option order, defaults left out."""
    import random
    rng = random.Random(form) if form is not None else None
    groups = []
    for short, long_, key, default in GEN_OPTS:
        if key not in p or p[key] is None:
            continue
        v = p[key]
        if rng is not None and type(v) is type(default) and v == default and repr(v) == repr(default) and rng.random() < 0.5:
            continue                    # the documented default, left out
        v = v if isinstance(v, str) else repr(v)
        if rng is not None and rng.random() < 0.06 and not v.startswith("-") and v[:1].isdigit():
            # the same number as a parameter table or a shell loop may hand it over: int() and float() accept
            # surrounding white space (a CRLF line ending), a plus sign, leading zeros
            v = rng.choice([v + "\r", " " + v, v + " ", "+" + v, v + "\n", "\t" + v] + (["0" + v] if "." not in v and "e" not in v else []))
        style = rng.choice(["short", "long", "long="]) if rng is not None else "short"
        if style == "long=":
            groups.append([long_ + "=" + v])
        elif v.startswith("-"):
            groups.append([short + v] if style == "short" else [long_ + "=" + v])   # the ways to pass a negative value
        else:
            groups.append([short if style == "short" else long_, v])
    if p.get("force_down"):
        groups.append(["-f" if (rng is None or rng.random() < 0.5) else "--force_down"])
    if rng is not None:
        rng.shuffle(groups)
    return ["roberta_generator.py"] + [x for g in groups for x in g]


def gen_cli(world, params, cfg=None, entropy=0, same_process=False):
    """`python roberta_generator.py ...` in the scratch cwd: a fresh process that
    ends afterwards - or (same_process) main() called from a long-lived driver."""
    cfg = dict(cfg or {})
    if not same_process:
        world.restart(entropy)
        cfg["process_ends"] = True
    cfg["argv"] = gen_argv(params, form=entropy if entropy else None)
    return world.run_op(lambda: proc.mod("roberta_generator").main(), cfg)


def gen_manual(world, b, cfg=None, entropy=0, same_process=False):
    cfg = dict(cfg or {})
    if not same_process:
        world.restart(entropy)
        cfg["process_ends"] = True
    def shape(x):
        # a board typed in by hand may be lists, tuples, or a mix: all denote the same board
        t = b.get("container")
        if t == "tuple":
            return tuple(tuple(r) for r in x)
        if t == "rows_tuple":
            return [tuple(r) for r in x]
        if t == "outer_tuple":
            return tuple(list(r) for r in x)
        return x

    def thunk():
        m = proc.mod("stochastic_game_from_roborta_board")
        return m.create_sg_from_board(shape(dec(b["moves"])), shape(dec(b["rewards"])), shape(dec(b["loose"])),
                                      b["rb"], b["lb"], b["tb"])
    return world.run_op(thunk, cfg)


def solver_cli(world, path, save, log=None, cfg=None, entropy=0, capture=None):
    """Fresh process running `python conditionalrewards.py -f path [-s] [-l x]`.

    capture: dict that receives the argument and the return value of run_games
    (wrapped at the module attribute - the seam main() itself resolves).
    """
    world.restart(entropy)
    import random
    rng = random.Random(entropy) if entropy else None
    shown = path
    if rng is not None and not path.startswith("/"):
        alts = [path, path, "./" + path]
        if "/" in path:
            alts.append(path.split("/")[0] + "/../" + path)
        shown = rng.choice(alts)   # same file, other spelling
    groups = [[rng.choice(["-f", "--file"]) if rng else "-f", shown]]
    if rng is not None and rng.random() < 0.3:
        groups = [[groups[0][0] + "=" + shown]] if groups[0][0] == "--file" else groups
    if save:
        groups.append([rng.choice(["-s", "--save_results"]) if rng else "-s"])
    if log:
        lv = log
        if rng is not None and rng.random() < 0.5:
            lv = {"i": "INFO", "d": "DEBUG", "dd": "FULL_DEBUG"}.get(log, log)
        groups.append([rng.choice(["-l", "--log_level"]) if rng else "-l", lv])
    if rng is not None:
        rng.shuffle(groups)
    argv = ["conditionalrewards.py"] + [x for g in groups for x in g]
    cfg = dict(cfg or {})
    cfg["argv"] = argv
    cfg["process_ends"] = True
    cfg.pop("log", None)

    def thunk():
        import copy
        cr = proc.mod("conditionalrewards")
        if capture is not None and hasattr(cr, "run_games"):
            real = cr.run_games

            def wrapped(games, *a, **kw):
                try:
                    capture["arg"] = enc(copy.deepcopy(games))
                except Exception as e:  # noqa
                    capture["arg_error"] = repr(e)
                res = real(games, *a, **kw)
                capture["ret_obj"] = res
                return res
            cr.run_games = wrapped
        return cr.main()
    return world.run_op(thunk, cfg)


def solver_lib(world, path, save, cfg=None, capture=None):
    """The same three steps main() performs, called from a long-lived session
    (notebook / driver script): no restart, module state survives between calls."""
    def thunk():
        import copy
        cr = proc.mod("conditionalrewards")
        games = cr.read_dict_from_file(path)
        if capture is not None:
            capture["arg_obj"] = games
            try:
                capture["arg"] = enc(copy.deepcopy(games))
            except Exception as e:  # noqa
                capture["arg_error"] = repr(e)
        res = cr.run_games(games)
        if capture is not None:
            capture["ret_obj"] = res
        if save:
            cr.save_results_to_file(res, path)
        return res
    return world.run_op(thunk, cfg)


def concurrently(world, seed, p, run_a, run_b, summarize):
    """Two invocations at the same time on one disk: run_a here, run_b in a forked partner process; their
    file-system events interleave as the seeded token schedule decides (world.Coord).  Returns
    (outcome of a, summary of b)."""
    world._note_threads()
    if world.threads_ever:
        # forking a process whose code runs threads is not simulated (a forked child inherits locks held by
        # threads that do not exist in it): the two invocations run one after the other instead
        world.probe("concurrent-pair-run-sequentially-because-the-code-starts-threads")
        res_b = summarize(run_b())
        res_b["switches"] = 0
        return run_a(), res_b
    coord = world.fork_partner(seed, p)
    if coord.role == "B":
        summ = {"status": "harness-exc", "error": "partner did not run"}
        try:
            summ = summarize(run_b())
            summ["switches"] = coord.switches
            summ["coord_log"] = list(coord.log)
        except BaseException as e:  # noqa
            import traceback
            summ = {"status": "harness-exc", "error": "%s: %s\n%s" % (type(e).__name__, e, traceback.format_exc())}
        finally:
            coord.child_exit(summ)          # never returns
    out_a = None
    try:
        out_a = run_a()
    finally:
        res_b = world.end_partner(coord)
    if res_b.get("status") == "harness-exc":
        raise proc.HarnessError("partner invocation: " + str(res_b.get("error"))[:1500])
    return out_a, res_b


def brief(out):
    """Picklable outcome of an op (what a partner process reports back)."""
    s = {k: out.get(k) for k in ("status", "etype", "emsg", "steps", "fs_fired", "site", "stderr_text", "fs_events")}
    c = out.get("code")
    s["code"] = c if isinstance(c, (int, type(None))) else str(c)
    return s


def container_ids(obj, acc=None, depth=0):
    """ids of every list/dict/set reachable from obj (the caller's own data, not to be scribbled on)."""
    acc = set() if acc is None else acc
    if depth > 8:
        return acc
    if isinstance(obj, (list, dict, set, tuple)):
        if id(obj) in acc:
            return acc
        acc.add(id(obj))
        for x in (obj.values() if isinstance(obj, dict) else obj):
            container_ids(x, acc, depth + 1)
    return acc


def scribble(obj, protect=frozenset(), depth=0, seen=None):
    """The caller edits what a call returned to it (its own data from then on): every list reachable
    from the returned value is reversed and extended, every dict gets one more key.  Code that hands
    out its internal or cached objects instead of fresh ones shows on the next call.  Containers in
    `protect` (objects the caller passed *in*) are left alone.  Returns the number of containers edited."""
    seen = set() if seen is None else seen
    if depth > 8 or id(obj) in seen:
        return 0
    n = 0
    if isinstance(obj, (list, dict, tuple, set)):
        seen.add(id(obj))
        for x in list(obj.values() if isinstance(obj, dict) else obj):
            n += scribble(x, protect, depth + 1, seen)
        if id(obj) in protect:
            return n
        try:
            if isinstance(obj, list):
                obj.reverse()
                obj.append("edited-by-the-caller")
                n += 1
            elif isinstance(obj, dict):
                obj["edited-by-the-caller"] = True
                n += 1
            elif isinstance(obj, set):
                obj.add("edited-by-the-caller")
                n += 1
        except Exception:
            pass
    return n


def read_file(world, path, cfg=None):
    return world.run_op(lambda: proc.mod("conditionalrewards").read_dict_from_file(path), cfg)


def summarize(out):
    """Comparable, picklable summary of an outcome."""
    st = out["status"]
    s = {"status": st, "steps": out.get("steps"), "sweeps": out.get("sweeps")}
    if st == "ok":
        s["value"] = enc(out["value"])
    elif st == "exc":
        s["etype"] = out["etype"]
        s["emsg"] = out["emsg"]
    elif st == "exit":
        s["code"] = out["code"] if isinstance(out["code"], (int, type(None))) else str(out["code"])
    elif st in ("divergent", "inconclusive"):
        s["info"] = out["info"]
    elif st == "interrupt":
        s["site"] = out.get("site")
    return s


def same_result(a, b):
    """Do two summaries denote the same observable behaviour (result or error)?"""
    if a["status"] != b["status"]:
        return False
    if a["status"] == "ok":
        return canon_e(a["value"]) == canon_e(b["value"])
    if a["status"] == "exc":
        return a["etype"] == b["etype"] and a["emsg"] == b["emsg"]
    if a["status"] == "exit":
        return a["code"] == b["code"]
    return True


from .lit import canon_e  # noqa: E402
