"""Workload pools: game descriptions, generator parameters, malformed variants.

Everything is drawn from the run's own random.Random; the results are plain
literals that get embedded verbatim in the op list (replay never re-generates).
"""
import copy

P1, P2, PR = "Player 1", "Player 2", "Probabilistic"
ACTIONS = ["a", "b", "c", "d", "alfa", "beta", "gamma", "Left", "Right", "Down", "acci\u00f3n", "Gr\u00f6\u00dfe",
           "risk_50%", "%s", "100%%", "{x}", "a b", "it's"]


def rand_game(rng, nmin=3, nmax=14, p_back=0.3):
    """Well-formed game, stopping by construction for the chance moves: every
    state has a transition to a higher-numbered state; the last states are
    absorbing (zero-reward sink, final states)."""
    n = rng.randint(nmin, nmax)
    n_final = 1 if rng.random() < 0.7 else 2
    n_final = min(n_final, n - 2)
    n_abs = n_final + 1
    sink = n - n_abs
    finals = list(range(sink + 1, n))
    players, rewards, tl = [], [], []
    big = rng.random() < 0.1
    for i in range(n):
        if i >= sink:
            players.append(PR)
            rewards.append(0 if (i == sink or rng.random() < 0.8) else rng.randint(0, 3))
            tl.append([(1, i)])
            continue
        kind = rng.choices([P1, P2, PR], [0.35, 0.25, 0.4])[0]
        if i == 0 and rng.random() < 0.3:
            kind = P1
        players.append(kind)
        r = 0 if rng.random() < 0.35 else rng.randint(1, 9)
        if big and rng.random() < 0.2:
            r = 10 ** rng.randint(6, 25)
        if rng.random() < 0.1:
            r = rng.choice([0.5, 1.25, 5 / 3, 2.0])
        rewards.append(r)
        k = rng.choice([1, 2, 2, 2, 3, 3, 4])
        succ = []
        fwd = rng.randint(i + 1, n - 1)
        # bias some states into the dead region (only the sink reachable)
        if rng.random() < 0.2:
            fwd = sink
        succ.append(fwd)
        while len(succ) < k:
            if rng.random() < p_back:
                s = rng.randint(0, i)
            else:
                s = rng.randint(i + 1, n - 1)
            if rng.random() < 0.25:
                s = sink
            succ.append(s)
        rng.shuffle(succ)
        if kind == PR:
            ps = _probs(rng, len(succ))
            tl.append([(p, s) for p, s in zip(ps, succ)])
        else:
            acts = rng.sample(ACTIONS, len(succ))
            tl.append([(a, s) for a, s in zip(acts, succ)])
    if rng.random() < 0.15:
        # non-absorbing final state
        f = finals[0]
        tl[f] = [(1, rng.randint(0, n - 1))]
    return {"rewards": rewards, "players": players, "transition_list": tl, "final_states": finals}


def stopping_game(rng, nmin=4, nmax=14):
    """Well-formed *stopping* game, mostly solvable from state 0.

    Built backwards over a fixed order: the last states are absorbing (sink,
    finals).  A state is 'good' if a final state is reached with positive
    probability whatever Player 2 does.  Back edges leave probabilistic states
    freely, player states only towards probabilistic states, and every
    probabilistic state keeps a forward branch - so every cycle leaks and every
    play is absorbed with probability 1 under any strategies.
    """
    n = rng.randint(nmin, nmax)
    n_final = 1 if rng.random() < 0.75 else 2
    sink = n - n_final - 1
    finals = list(range(sink + 1, n))
    kinds = [None] * n
    good = [False] * n
    tl = [None] * n
    rewards = [0] * n
    for i in range(sink, n):
        kinds[i] = PR
        tl[i] = [(1, i)]
        good[i] = i in finals
    for i in range(sink - 1, -1, -1):
        kinds[i] = rng.choices([P1, P2, PR], [0.35, 0.25, 0.4])[0]
    want_dead = set(i for i in range(1, sink) if rng.random() < 0.2)
    for i in range(sink - 1, -1, -1):
        kind = kinds[i]
        later_good = [j for j in range(i + 1, n) if good[j]]
        later_dead = [j for j in range(i + 1, n) if not good[j]]
        k = rng.choice([1, 2, 2, 2, 3, 3, 4])
        succ = []
        if i in want_dead:
            succ = [rng.choice(later_dead) for _ in range(min(k, 2))]
        elif kind == P2:
            succ = [rng.choice(later_good) for _ in range(k)]
            if rng.random() < 0.08:
                succ[rng.randrange(len(succ))] = rng.choice(later_dead)   # Player 2 can spoil it
        else:
            succ = [rng.choice(later_good)]
            n_dead = 0
            while len(succ) < k:
                r = rng.random()
                if r < 0.22 and (n_dead == 0 or rng.random() < 0.15):
                    succ.append(rng.choice(later_dead))
                    n_dead += 1
                elif r < 0.45 and i > 0:
                    # back edge: anywhere from a chance state, only onto chance states from a player
                    cands = [j for j in range(0, i + 1) if kind == PR or kinds[j] == PR]
                    cands = [j for j in cands if j != i or kind == PR]
                    succ.append(rng.choice(cands) if cands else rng.choice(later_good))
                else:
                    succ.append(rng.choice(later_good))
            head = succ[0]
            rng.shuffle(succ)
            if kind == PR and head <= i:
                succ[0] = rng.choice(later_good)
        if kind == PR:
            # keep one forward branch with positive probability
            if all(sx <= i for sx in succ):
                succ[0] = rng.choice(later_good + later_dead)
            ps = _probs(rng, len(succ))
            tl[i] = [(p_, sx) for p_, sx in zip(ps, succ)]
        else:
            if kind == P2 and len(set(succ)) < len(succ) and rng.random() < 0.5:
                succ = list(dict.fromkeys(succ))
            if len(succ) >= 2 and rng.random() < 0.08:
                succ = [succ[0]] * len(succ)            # parallel edges: every action ties with every other
            acts = rng.sample(ACTIONS, len(succ))
            if len(succ) >= 3 and rng.random() < 0.15:
                # two transitions carrying the same action label (a strategy names labels, not edges)
                a_, b_ = rng.sample(range(len(succ)), 2)
                acts[b_] = acts[a_]
            tl[i] = [(a, sx) for a, sx in zip(acts, succ)]
        fw = [sx for sx in succ if sx > i]
        if kind == P2:
            good[i] = all(good[sx] for sx in succ if sx > i) and bool(fw)
        else:
            good[i] = any(good[sx] for sx in fw)
        r = 0 if rng.random() < 0.3 else rng.randint(1, 9)
        if rng.random() < 0.06:
            r = rng.choice([0.5, 1.25, 5 / 3, 10 ** rng.randint(6, 20)])
        rewards[i] = r
    return {"rewards": rewards, "players": kinds, "transition_list": tl, "final_states": finals}


def permute_states(rng, g):
    """The same game under another numbering of its states (state 0 stays the initial state)."""
    n = len(g["players"])
    perm = list(range(1, n))
    rng.shuffle(perm)
    perm = [0] + perm               # old index -> new index
    out = {"rewards": [None] * n, "players": [None] * n, "transition_list": [None] * n,
           "final_states": [perm[f] for f in g["final_states"]]}
    for i in range(n):
        out["rewards"][perm[i]] = g["rewards"][i]
        out["players"][perm[i]] = g["players"][i]
        out["transition_list"][perm[i]] = [(a, perm[t]) for a, t in g["transition_list"][i]]
    return out


def tiny_game(rng):
    """One- to three-state games: the smallest legal objects."""
    k = rng.randrange(6)
    if k == 5:      # parallel edges, one label used twice, everything ties
        who = rng.choice([P1, P2])
        labs = rng.sample(ACTIONS, 3)
        return {"rewards": [rng.randint(0, 3), 0], "players": [who, PR],
                "transition_list": [[(labs[0], 1), (labs[1], 1), (labs[0], 1), (labs[2], 1)], [(1, 1)]], "final_states": [1]}
    if k == 0:      # a single absorbing final state
        return {"rewards": [rng.choice([0, 3])], "players": [PR], "transition_list": [[(1, 0)]], "final_states": [0]}
    if k == 1:      # start -> final
        return {"rewards": [rng.randint(0, 5), 0], "players": [rng.choice([P1, P2]), PR],
                "transition_list": [[("go", 1)], [(1, 1)]], "final_states": [1]}
    if k == 2:      # coin flip between sink and final
        p = rng.choice([0.5, 0.25, 1e-9, 1 - 1e-9, 0.07])
        return {"rewards": [1, 0, 0], "players": [PR, PR, PR],
                "transition_list": [[(p, 1), (1 - p, 2)], [(1, 1)], [(1, 2)]], "final_states": [2]}
    if k == 3:      # float rewards and a huge one
        return {"rewards": [0.5, 10 ** 30, 0.0], "players": [P1, PR, PR],
                "transition_list": [[("a", 1), ("b", 2)], [(1.0, 2)], [(1, 2)]], "final_states": [2]}
    return {"rewards": [0, 0], "players": [P2, PR], "transition_list": [[("x", 1), ("y", 1)], [(1, 1)]], "final_states": [1, 1]}


def variant_game(rng, base, kind=None):
    """A *well-formed* near-twin of base: same size and shape, one detail different.
    kinds: players (one state handed to the other player), reward, rewire (one transition
    points elsewhere: same counts, other wiring), nudge (one probability moved by 4e-7)."""
    g = copy.deepcopy(base)
    kind = kind or rng.choice(["players", "reward", "rewire", "rewire", "nudge", "nudge", "permute", "permute"])
    try:
        n = len(g["players"])
        tl = g["transition_list"]
        if kind == "players":
            owners = [i for i, pl in enumerate(g["players"]) if pl in (P1, P2)]
            if owners:
                i = rng.choice(owners)
                g["players"][i] = P2 if g["players"][i] == P1 else P1
                return g, kind
            kind = "reward"
        if kind == "permute":
            # the same transitions listed in another order inside one or two states
            rows = [i for i in range(n) if len(tl[i]) >= 2 and len(set(map(repr, tl[i]))) >= 2]
            if rows:
                for i in rng.sample(rows, min(len(rows), 2)):
                    row = list(tl[i])
                    while row == tl[i]:
                        rng.shuffle(row)
                    tl[i] = row
                return g, kind
            kind = "rewire"
        if kind == "rewire":
            cands = [(i, j) for i in range(n) for j in range(len(tl[i])) if n > 1]
            rng.shuffle(cands)
            for i, j in cands[:20]:
                a, s_ = tl[i][j]
                t = rng.randrange(n)
                if t != s_ and isinstance(s_, int):
                    tl[i] = tl[i][:j] + [(a, t)] + tl[i][j + 1:]
                    return g, kind
            kind = "nudge"
        if kind == "nudge":
            rows = [i for i in range(n) if g["players"][i] == PR and len(tl[i]) >= 2
                    and all(isinstance(p_, float) and 1e-5 < p_ < 1 - 1e-5 for p_, _ in tl[i][:2])]
            if rows:
                i = rng.choice(rows)
                (p0, s0), (p1, s1) = tl[i][0], tl[i][1]
                tl[i] = [(p0 + 4e-7, s0), (p1 - 4e-7, s1)] + tl[i][2:]
                return g, kind
            kind = "reward"
        k = rng.randrange(len(g["rewards"]))
        if isinstance(g["rewards"][k], (int, float)) and not isinstance(g["rewards"][k], bool):
            g["rewards"][k] = g["rewards"][k] + rng.randint(1, 3)
    except Exception:
        pass
    return g, kind


def _probs(rng, k):
    if k == 1:
        return [1 if rng.random() < 0.7 else 1.0]
    if rng.random() < 0.05:
        # a row that does not add up to 1 (0.9 in total): accepted by the solver as it stands
        return [round(0.9 / k, 6)] * k
    style = rng.random()
    if k == 2:
        if style < 0.4:
            p = rng.choice([0.5, 0.25, 0.1, 0.01, 0.9, 0.3, 0.35, 1 / 3])
        else:
            p = round(rng.uniform(0.01, 0.99), rng.choice([2, 3, 6]))
        return [p, 1 - p]
    if style < 0.5:
        return [1 / k] * k
    w = [rng.randint(1, 9) for _ in range(k)]
    t = sum(w)
    return [x / t for x in w]


def nosol_game(rng):
    """Well-formed game whose initial state cannot reach (or is kept from) a final state."""
    g = rand_game(rng, 3, 8)
    n = len(g["players"])
    sink = n - len(g["final_states"]) - 1
    mode = rng.random()
    if mode < 0.5:
        g["players"][0] = PR
        g["transition_list"][0] = [(1, sink)]
    else:
        g["players"][0] = P2
        g["transition_list"][0] = [("stay", sink), ("go", n - 1)]
    return g


BAD_RULES = ("neg_reward", "unknown_player", "final_n", "final_neg", "succ_n", "succ_neg",
             "empty_trans", "list_not_tuple", "triple", "action_not_str", "prob_not_num",
             "succ_not_int", "short_rewards", "short_transitions", "trans_not_list")


def bad_game(rng, base=None, rule=None):
    """A well-formed game broken by exactly one documented rule at a seeded position."""
    g = copy.deepcopy(base) if base is not None else rand_game(rng, 3, 9)
    n = len(g["players"])
    rule = rule or rng.choice(BAD_RULES)
    i = rng.randrange(n)
    tl = g["transition_list"]
    j = rng.randrange(len(tl[i]))
    if rule == "neg_reward":
        g["rewards"][i] = -rng.randint(1, 5)
    elif rule == "unknown_player":
        g["players"][i] = rng.choice(["Player 3", "player 1", "", "Probabilistic "])
    elif rule == "final_n":
        g["final_states"] = g["final_states"] + [n]
    elif rule == "final_neg":
        g["final_states"] = [-1] + g["final_states"]
    elif rule == "succ_n":
        tl[i][j] = (tl[i][j][0], n)
    elif rule == "succ_neg":
        tl[i][j] = (tl[i][j][0], -1)
    elif rule == "empty_trans":
        tl[i] = []
    elif rule == "list_not_tuple":
        tl[i][j] = list(tl[i][j])
    elif rule == "triple":
        tl[i][j] = tl[i][j] + (0,)
    elif rule == "action_not_str":
        ks = [k for k in range(n) if g["players"][k] != PR]
        if not ks:
            return bad_game(rng, base, "neg_reward")
        i = rng.choice(ks)
        j = rng.randrange(len(tl[i]))
        tl[i][j] = (rng.choice([0.5, 3, None]), tl[i][j][1])
    elif rule == "prob_not_num":
        ks = [k for k in range(n) if g["players"][k] == PR]
        i = rng.choice(ks)
        j = rng.randrange(len(tl[i]))
        tl[i][j] = (rng.choice(["0.5", None, "half"]), tl[i][j][1])
    elif rule == "succ_not_int":
        tl[i][j] = (tl[i][j][0], rng.choice([1.0, "1", None]))
    elif rule == "succ_float_same":
        tl[i][j] = (tl[i][j][0], float(tl[i][j][1]))      # equal to the int index, but not an int: malformed
    elif rule == "prob_int_as_float":
        ks = [k for k in range(n) if g["players"][k] == PR]
        if ks:
            i = rng.choice(ks)
            tl[i] = [(float(p_), s_) if isinstance(p_, int) else (p_, s_) for p_, s_ in tl[i]]   # still well-formed
    elif rule == "short_rewards":
        g["rewards"] = g["rewards"][:-1]
    elif rule == "short_transitions":
        g["transition_list"] = tl[:-1]
    elif rule == "trans_not_list":
        tl[i] = tuple(tl[i])
    return g


# ---------------------------------------------------------------------------
# generator parameters
# ---------------------------------------------------------------------------

EXTREME_PROBS = [1e-9, 1e-11, 1e-12, 1e-15, 1e-300, 5e-324, 1 - 1e-9, 1 - 1e-11, 1 - 1e-12, 1 - 1e-15, 1 - 2 ** -53]


def pct(rng):
    return rng.randint(1, 99) / 100


def gen_params(rng, cls=None):
    """Accepted parameter set for the board generator."""
    cls = cls or rng.choices(["tiny", "small", "wide", "tall"], [0.55, 0.3, 0.1, 0.05])[0]
    if cls == "tiny":
        w, l = rng.randint(1, 3), rng.randint(1, 3)
    elif cls == "small":
        w, l = rng.randint(1, 5), rng.randint(1, 5)
    elif cls == "wide":
        w, l = rng.randint(6, 40 if rng.random() < 0.25 else 14), rng.randint(1, 3)
    else:
        w, l = rng.randint(1, 2), rng.randint(20, 400)
    style = rng.random()

    def prob():
        if style < 0.6:
            return pct(rng)
        if style < 0.85:
            return round(rng.uniform(0.01, 0.99), rng.choice([3, 5, 17]))
        return rng.choice([0.01, 0.99, 0.5, 0.001, 0.999] + EXTREME_PROBS)
    return {
        "seed": rng.choice([0, 1, 7, 47, rng.randint(0, 10 ** 6), rng.randint(0, 2 ** 40), rng.randint(0, 2 ** 40),
                            2 ** 63 + rng.randint(0, 99), 10 ** 30 + rng.randint(0, 9)]),
        "width": w, "length": l,
        "max_reward": rng.choice([1, 2, 6, 6, 6, rng.randint(1, 64)]),
        "rb": prob(), "lb": prob(), "tb": prob(), "lt": prob(),
        "force_down": rng.random() < 0.5,
    }


def rand_board(rng, wmax=4, lmax=4, force_down=None):
    """A hand-made board for the manual entry point."""
    w, l = rng.randint(1, wmax), rng.randint(1, lmax)
    fd = rng.random() < 0.5 if force_down is None else force_down
    mv = [[rng.randint(0, 3 if fd else 2) for _ in range(w)] for _ in range(l)]
    rw = [[rng.randint(0, 6) for _ in range(w)] for _ in range(l)]
    lo = [[1 if rng.random() < 0.3 else 0 for _ in range(w)] for _ in range(l)]
    return mv, rw, lo
