"""The client's ways of writing an input file: different texts denoting the same dict."""
import random
from fractions import Fraction

from .lit import canon

STYLES = ("repr", "generator", "indented", "fractions", "compact", "crlf")


def _num(x, style, rng):
    if isinstance(x, bool) or not isinstance(x, (int, float)):
        return repr(x)
    if isinstance(x, int):
        if style == "fractions" and x >= 10 ** 6 and str(x).rstrip("0") in ("1",):
            return "10**%d" % (len(str(x)) - 1)
        return repr(x)
    if x != x or x in (float("inf"), float("-inf")):
        return "float(%r)" % repr(x)
    if style == "fractions":
        fr = Fraction(x).limit_denominator(64)
        if fr.denominator > 1 and fr.numerator / fr.denominator == x:
            return "%d/%d" % (fr.numerator, fr.denominator)
    if style in ("compact", "fractions"):
        r = repr(x)
        if r.startswith("0.") and rng.random() < 0.5:
            return r[1:]
    return repr(x)


def _val(o, style, rng, ind):
    if isinstance(o, dict):
        if style == "indented":
            pad = " " * (ind + 4)
            items = [pad + _val(k, style, rng, ind + 4) + ": " + _val(v, style, rng, ind + 4) for k, v in o.items()]
            return "{\n" + ",\n".join(items) + ("," if items and rng.random() < 0.5 else "") + "\n" + " " * ind + "}"
        return "{" + ", ".join(_val(k, style, rng, ind) + ": " + _val(v, style, rng, ind) for k, v in o.items()) + "}"
    if isinstance(o, list):
        if style == "indented" and o and isinstance(o[0], list):
            pad = " " * (ind + 4)
            return "[\n" + ",\n".join(pad + _val(x, style, rng, ind + 4) for x in o) + "\n" + " " * ind + "]"
        sep = "," if style == "compact" else ", "
        return "[" + sep.join(_val(x, style, rng, ind) for x in o) + "]"
    if isinstance(o, tuple):
        if len(o) == 1:
            return "(" + _val(o[0], style, rng, ind) + ",)"
        sep = "," if style == "compact" else ", "
        return "(" + sep.join(_val(x, style, rng, ind) for x in o) + ")"
    if isinstance(o, str):
        if style in ("indented", "fractions") and "'" not in o and '"' not in o and "\\" not in o:
            return '"' + o + '"'
        return repr(o)
    return _num(o, style, rng)


def render(games, style, seed=0):
    """Text that `eval` turns into exactly `games` (verified; falls back to repr)."""
    rng = random.Random(seed)
    if style == "repr":
        txt = repr(games)
    elif style == "generator":
        txt = ("# Board:\n#\n#   written by hand\n\n" +
               str(games).replace("[[", "[\n[").replace("], ", "],\n").replace("[(", " " * 16 + "[(")
               .replace("\n'", "\n" + " " * 12 + "'") + "\n")
    elif style == "crlf":
        txt = ("# edited on another OS\n" + _val(games, "indented", rng, 0) + "\n").replace("\n", "\r\n")
    else:
        txt = _val(games, style, rng, 0) + "\n"
        if style == "indented":
            txt = "# games written by hand\n" + txt
    try:
        back = eval(txt, {"__builtins__": {"float": float}}, {})
        if canon(back) == canon(games):
            return txt
    except Exception:
        pass
    return repr(games)
