"""The client's ways of writing an input file: different texts denoting the same dict."""
import random
from fractions import Fraction

from .lit import canon

STYLES = ("repr", "generator", "indented", "fractions", "compact", "crlf", "builtins", "arithmetic")


def _num(x, style, rng):
    if isinstance(x, bool) or not isinstance(x, (int, float)):
        return repr(x)
    if isinstance(x, int):
        if style == "fractions" and x >= 10 ** 6 and str(x).rstrip("0") in ("1",):
            return "10**%d" % (len(str(x)) - 1)
        return repr(x)
    if x != x or x in (float("inf"), float("-inf")):
        return "float(%r)" % repr(x)
    if style == "arithmetic" and 0 < x < 1e6 and rng.random() < 0.6:
        # a value the author computed in the file: compound float arithmetic that Python evaluates to exactly x
        # (two roundings; evaluating it any other way - exactly, in another order - may land one ulp away)
        for _ in range(6):
            a, b = round(rng.uniform(0.05, 0.95), rng.choice([1, 2, 3])), rng.choice([3, 7, 0.3, 0.7, 1.1, 9])
            forms = [("(%r / %r + %r)", lambda r_: a / b + r_, lambda: x - a / b),
                     ("(%r * %r + %r)", lambda r_: a * b + r_, lambda: x - a * b),
                     ("(1 - %r / %r - %r)", lambda r_: 1 - a / b - r_, lambda: 1 - a / b - x)]
            fmt, ev, rest = forms[rng.randrange(3)]
            c = rest()
            if c == c and abs(c) < 1e9 and ev(c) == x and isinstance(c, float):
                return fmt % (a, b, c)
    if style == "fractions":
        fr = Fraction(x).limit_denominator(64)
        if fr.denominator > 1 and fr.numerator / fr.denominator == x:
            return "%d/%d" % (fr.numerator, fr.denominator)
    if style in ("compact", "fractions"):
        r = repr(x)
        if r.startswith("0.") and rng.random() < 0.5:
            return r[1:]
    return repr(x)


def _val(o, style, rng, ind):
    if style == "builtins":
        # a hand-written file that computes some of its values (the reader evaluates Python)
        if isinstance(o, list) and len(o) >= 2 and all(type(x) is int for x in o):
            if o == list(range(o[0], o[0] + len(o))) and rng.random() < 0.7:
                return "list(range(%d, %d))" % (o[0], o[0] + len(o))
            if len(set(o)) == 1 and rng.random() < 0.7:
                return "[%r] * %d" % (o[0], len(o))
            if o == sorted(o) and rng.random() < 0.3:
                return "sorted(%r)" % (o[::-1],)
        if isinstance(o, list) and len(o) >= 2 and all(isinstance(x, str) for x in o) and len(set(o)) == 1:
            return "[%r] * %d" % (o[0], len(o))
        if isinstance(o, tuple) and len(o) == 2 and rng.random() < 0.15:
            return "tuple([%s, %s])" % (_val(o[0], style, rng, ind), _val(o[1], style, rng, ind))
        if isinstance(o, float) and o == o and abs(o) < 1e6 and rng.random() < 0.3:
            return "float(%r)" % repr(o)
        if type(o) is int and 0 <= o < 100 and rng.random() < 0.1:
            return "int(%r)" % str(o)
        if type(o) is int and o >= 2 and rng.random() < 0.1:
            return "max(%d, %d)" % (o, o - 1)
        if isinstance(o, dict) and o and all(isinstance(k, str) and k.isidentifier() and k.isascii() for k in o) and rng.random() < 0.5:
            return "dict(" + ", ".join("%s=%s" % (k, _val(v, style, rng, ind)) for k, v in o.items()) + ")"
    if isinstance(o, dict):
        if style == "indented":
            pad = " " * (ind + 4)
            items = [pad + _val(k, style, rng, ind + 4) + ": " + _val(v, style, rng, ind + 4) for k, v in o.items()]
            return "{\n" + ",\n".join(items) + ("," if items and rng.random() < 0.5 else "") + "\n" + " " * ind + "}"
        return "{" + ", ".join(_val(k, style, rng, ind) + ": " + _val(v, style, rng, ind) for k, v in o.items()) + "}"
    if isinstance(o, list):
        if style == "indented" and o and isinstance(o[0], list):
            pad = " " * (ind + 4)
            return "[\n" + ",\n".join(pad + _val(x, style, rng, ind + 4) for x in o) + "\n" + " " * ind + "]"
        sep = "," if style == "compact" else ", "
        return "[" + sep.join(_val(x, style, rng, ind) for x in o) + "]"
    if isinstance(o, tuple):
        if len(o) == 1:
            return "(" + _val(o[0], style, rng, ind) + ",)"
        sep = "," if style == "compact" else ", "
        return "(" + sep.join(_val(x, style, rng, ind) for x in o) + ")"
    if isinstance(o, str):
        if style in ("indented", "fractions") and "'" not in o and '"' not in o and "\\" not in o:
            return '"' + o + '"'
        return repr(o)
    return _num(o, style, rng)


def render(games, style, seed=0):
    """Text that `eval` turns into exactly `games` (verified; falls back to repr)."""
    rng = random.Random(seed)
    if style == "repr":
        txt = repr(games)
    elif style == "generator":
        txt = ("# Board:\n#\n#   written by hand\n\n" +
               str(games).replace("[[", "[\n[").replace("], ", "],\n").replace("[(", " " * 16 + "[(")
               .replace("\n'", "\n" + " " * 12 + "'") + "\n")
    elif style == "crlf":
        txt = ("# edited on another OS\n" + _val(games, "indented", rng, 0) + "\n").replace("\n", "\r\n")
    else:
        txt = _val(games, style, rng, 0) + "\n"
        if style == "indented":
            txt = "# games written by hand\n" + txt
    try:
        back = eval(txt, {"__builtins__": {"float": float, "list": list, "range": range, "sorted": sorted, "tuple": tuple,
                                           "int": int, "max": max, "dict": dict}}, {})
        if canon(back) == canon(games):
            return txt
    except Exception:
        pass
    return repr(games)
