"""Deterministic simulation harness for joaquinfeltes/conditionalrewards (see DESIGN.md)."""
