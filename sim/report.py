"""Reader for the solver's saved report (outputs/<stem>.txt) - the client's side of C12/C16."""

RULE = "=" * 160

FIELDS = [  # (label in the report, key in the run_games entry)
    ("Running example", "name"),
    ("Message", "msg"),
    ("number of states", "n_states"),
    ("number of transitions", "n_transitions"),
    ("n iterations reach", "n_iterations_reach"),
    ("n iterations rew", "n_iterations_rew"),
    ("Reachability strategies", "reachability_strategies"),
    ("Final strategies", "final_strategies"),
    ("Are equal", "are_equal"),
    ("Probabilities", "probabilities"),
    ("Probabilities min rew", "prob_min_rew"),
    ("Rewards", "rewards"),
    ("Rewards min reach", "rew_min_reach"),
    ("Total time", "total_time"),
]
LABEL2KEY = {a.lower(): b for a, b in FIELDS}
RAW = {"name", "msg"}


class ReportError(Exception):
    pass


def literal(s):
    return eval(s, {"__builtins__": {}}, {"inf": float("inf"), "nan": float("nan")})


def parse(text):
    """-> list of blocks; block = {key: value} with an extra '_lines' list.  Raises ReportError."""
    if text == "":
        return []
    if not text.endswith("\n"):
        raise ReportError("report does not end with a newline (torn?)")
    lines = text[:-1].split("\n")
    blocks = []
    cur = None
    for ln in lines:
        if ln == RULE:
            cur = {"_lines": []}
            blocks.append(cur)
            continue
        if cur is None:
            raise ReportError("text before the first block rule: %r" % ln[:80])
        label, sep, value = ln.partition(": ")
        if not sep:
            raise ReportError("line without 'label : value': %r" % ln[:80])
        key = LABEL2KEY.get(label.strip().lower())
        if key is None:
            # a line the property does not speak about (a version stamp, a new diagnostic): kept, not judged
            cur.setdefault("_extra", []).append((label.strip(), value))
            continue
        if key in cur:
            raise ReportError("label %r twice in one block" % label.strip())
        cur["_lines"].append(key)
        if key in RAW:
            cur[key] = value
        else:
            try:
                cur[key] = literal(value)
            except Exception as e:  # noqa
                raise ReportError("value of %r is not a Python literal: %r (%s)" % (label.strip(), value[:80], e))
    return blocks
