"""Shared machinery for the properties that drive the board generator (C11, C15, C17)."""
import re

from .. import ops, pools
from ..lit import enc, dec, canon, canon_e, h, short
from . import common

WMODE = re.compile(r"[wax+]")


def is_write_open(ev):
    return ev[1].startswith("open:") and WMODE.search(ev[1][5:]) is not None


def run_gen(w, op, cfg=None):
    """Execute a generator op (CLI or manual entry point) and describe its file effects."""
    before = w.fs.snapshot()
    cfg = dict(cfg or {})
    sp = bool(op.get("same_process"))
    if op["op"] == "gen_manual":
        out = ops.gen_manual(w, op["board"], cfg, op.get("entropy", 0), sp)
    else:
        out = ops.gen_cli(w, op["params"], cfg, op.get("entropy", 0), sp)
    after = w.fs.snapshot()
    changed = sorted(k for k in set(before) | set(after) if before.get(k) != after.get(k))
    wopens = [e[2] for e in out["fs_events"] if is_write_open(e)]
    # The files this invocation produced, judged by effect: created or modified and still
    # there afterwards (a write-to-temp-then-rename counts as its target); if nothing
    # changed (identical regeneration) the files it opened for writing that exist.
    produced = [c for c in changed if c in after]
    if not produced:
        renamed = {e[2]: e[3] for e in out["fs_events"] if e[1] == "rename"}
        produced = sorted({renamed.get(p, p) for p in wopens} & set(after))
    return out, before, after, changed, produced


def make_pair(rng, pa, pb):
    """Op: two generator command lines started at the same time in one folder.  The two parameter sets get
    different seeds, so each run has a file of its own."""
    pa, pb = dict(pa), dict(pb)
    if pa["seed"] == pb["seed"]:
        pb["seed"] = pa["seed"] + 1
    return {"op": "gen_pair", "sched": rng.randint(0, 2 ** 32), "p": rng.choice([0.1, 0.3, 0.3, 0.6]),
            "a": {"op": "gen_cli", "params": pa, "entropy": rng.randint(0, 2 ** 32)},
            "b": {"op": "gen_cli", "params": pb, "entropy": rng.randint(0, 2 ** 32)}}


def run_gen_pair(w, op):
    """Two generator invocations (op["a"], op["b"]: different parameter sets, hence different files) running at the
    same time in the same folder."""
    before = w.fs.snapshot()

    def run(x):
        if x["op"] == "gen_manual":
            return ops.gen_manual(w, x["board"], {}, x.get("entropy", 0), False)
        return ops.gen_cli(w, x["params"], {}, x.get("entropy", 0), False)
    out_a, res_b = ops.concurrently(w, int(op.get("sched", 0)), float(op.get("p", 0.3)),
                                    lambda: run(op["a"]), lambda: run(op["b"]), ops.brief)
    after = w.fs.snapshot()
    return out_a, res_b, before, after


def pair_problem(ctx, op, out_a, res_b, before, after):
    """(class, message) if one of two concurrent generator runs did not produce exactly the file it produces
    when run alone on an empty disk, else None."""
    expected = {}
    for tag, x, out in (("first", op["a"], out_a), ("second", op["b"], res_b)):
        what = "`roberta_generator.py %s`" % " ".join(ops.gen_argv(x["params"])[1:]) if x["op"] == "gen_cli" else "create_sg_from_board(...)"
        if out["status"] != "ok":
            return "concurrent-run-failed", "%s, run at the same time as another generator run in the same folder, did not finish: %s" % (what, show(out))
        r = ref_gen(ctx, x)
        if r["status"] != "ok":
            continue
        for rel, data in r["files"].items():
            expected[rel] = data
            if after.get(rel) != data:
                got = after.get(rel)
                return "concurrent-file-differs", "%s, run at the same time as another generator run in the same folder: %s %s (alone on an empty disk it gets %d bytes %s)" % (
                    what, rel, "is missing" if got is None else "holds %d bytes %s" % (len(got), h(got)), len(data), h(data))
    changed = [k for k in after if before.get(k) != after.get(k)]
    stray = [k for k in game_files(changed) if k not in expected]
    if stray and len(expected) >= 2:
        return "concurrent-stray-file", "two concurrent generator runs left game files neither of them writes when run alone: %s" % stray
    return None


def game_files(paths):
    """Generated game files among paths (auxiliary files - dotfiles, other suffixes - are the code's own business)."""
    return sorted(p for p in set(paths) if p.startswith("inputs/") and p.endswith(".py")
                  and not p.rsplit("/", 1)[-1].startswith("."))


def ref_gen(ctx, op):
    """What the same invocation writes in a never-used process with an empty disk."""
    if op["op"] == "gen_manual":
        plain = {k: v for k, v in op["board"].items() if k != "container"}    # the reference gets plain lists
        key = ("gen_manual", canon(plain))
        return ctx.ref.call("gen_manual", {"board": plain}, key=key)
    # (the same spelling of the command line: a tool may legitimately record its arguments in the file)
    form = op.get("entropy", 0) if not op.get("same_process") else op.get("entropy", 0)
    key = ("gen_cli", canon(op["params"]), form)
    return ctx.ref.call("gen_cli", {"params": op["params"], "entropy": form}, key=key)


def show(out):
    if out["status"] == "exc":
        return "%s(%r)" % (out["etype"], out["emsg"])
    if out["status"] == "exit":
        return "SystemExit(%r) %s" % (out.get("code"), (out.get("stderr_text") or "")[-200:].strip())
    return "%s %s" % (out["status"], out.get("info") or out.get("site") or "")


# -- the board depicted in the file's leading comment ----------------------------------------

_TILE = re.compile(r"\[(\d+)\|(<-|<>|->|v)\((X| )\)\]")
_ARROWS = {"<-": 0, "<>": 1, "->": 2, "v": 3}


def board_from_preamble(data):
    """(moves, rewards, loose) as drawn in the `# Board:` comment, or None if the comment is
    absent or drawn differently (then nothing is concluded from it)."""
    try:
        text = data.decode("utf-8")
    except UnicodeDecodeError:
        return None
    if not text.startswith("# Board:"):
        return None
    mv, rw, lo = [], [], []
    for ln in text.split("\n")[2:]:
        if not ln.startswith("#"):
            break
        tiles = _TILE.findall(ln)
        if not tiles or "".join(" [%s|%s(%s)]" % t for t in tiles) != ln[3:]:
            return None
        rw.append([int(t[0]) for t in tiles])
        mv.append([_ARROWS[t[1]] for t in tiles])
        lo.append([1 if t[2] == "X" else 0 for t in tiles])
    return (mv, rw, lo) if mv else None


# -- file names (C17) ---------------------------------------------------------

def parse_name(rel):
    """Order-independent reading of a generated file name -> dict of stated fields."""
    base = rel.rsplit("/", 1)[-1]
    if base.endswith(".py"):
        base = base[:-3]
    fields = {"force_down": "force_down" in base or "forcedown" in base}
    toks = [t for t in base.replace("force_down", "").split("_") if t]
    seen = {}
    for t in toks:
        m = re.fullmatch(r"(rb|lb|tb|lt|w|l|r)(-?\d+)", t)
        if m:
            seen.setdefault(m.group(1), []).append(int(m.group(2)))
        elif re.fullmatch(r"-?\d+", t):
            seen.setdefault("seed", []).append(int(t))
    for k, vals in seen.items():
        # a field stated twice with different values states nothing
        fields[k] = vals[0] if len(set(vals)) == 1 else "ambiguous%r" % (vals,)
    return fields


def want_fields(op):
    if op["op"] == "gen_manual":
        b = op["board"]
        mv, rw = dec(b["moves"]), dec(b["rewards"])
        return {"w": len(mv[0]), "l": len(mv), "r": max(max(r) for r in rw),
                "rb": pct_of(b["rb"]), "lb": pct_of(b["lb"]), "tb": pct_of(b["tb"]),
                "force_down": max(max(r) for r in mv) == 3}
    p = op["params"]
    return {"seed": p["seed"], "w": p["width"], "l": p["length"], "r": p["max_reward"],
            "rb": pct_of(p["rb"]), "lb": pct_of(p["lb"]), "tb": pct_of(p["tb"]), "lt": pct_of(p["lt"]),
            "force_down": bool(p.get("force_down"))}


def pct_of(x):
    """k if x is the float nearest to k/100 for an integer k, else None."""
    k = round(x * 100)
    return k if 0 <= k <= 100 and k / 100 == x else None


# -- game structure (C11) -------------------------------------------------------

def structure_violation(name, g):
    """I11.2 on a literal game description; returns (class, message) or None."""
    try:
        players, tl, rewards, finals = g["players"], g["transition_list"], g["rewards"], g["final_states"]
    except Exception as e:  # noqa
        return "malformed", "game %s lacks a field: %r" % (name, e)
    n = len(players)
    if len(tl) != n or len(rewards) != n:
        return "malformed", "game %s: %d players, %d transition lists, %d rewards" % (name, n, len(tl), len(rewards))
    if not isinstance(finals, list) or len(finals) != 1:
        return "finals", "game %s: final states %r, expected exactly one" % (name, finals)
    win = finals[0]
    for i, t in enumerate(tl):
        if not t:
            return "empty-state", "game %s: state %d has no transition" % (name, i)
        for tr in t:
            if not (isinstance(tr, tuple) and len(tr) == 2 and isinstance(tr[1], int) and not isinstance(tr[1], bool)
                    and 0 <= tr[1] < n):
                return "bad-transition", "game %s: state %d has transition %r (n=%d)" % (name, i, tr, n)
        if players[i] == "Probabilistic":
            ps = [tr[0] for tr in t]
            if not all(isinstance(p, (int, float)) and not isinstance(p, bool) and p > 0 for p in ps):
                return "prob-nonpositive", "game %s: probabilistic state %d has probabilities %r" % (name, i, ps)
            if abs(sum(ps) - 1.0) > 1e-9:
                return "prob-sum", "game %s: probabilities of state %d sum to %r: %r" % (name, i, sum(ps), ps)
        elif players[i] in ("Player 1", "Player 2"):
            if not all(isinstance(tr[0], str) for tr in t):
                return "bad-transition", "game %s: player state %d has a non-string action: %r" % (name, i, t)
        else:
            return "bad-player", "game %s: state %d owner %r" % (name, i, players[i])
    if not (isinstance(win, int) and 0 <= win < n):
        return "finals", "game %s: final state %r out of range" % (name, win)
    if any(tr[1] != win for tr in tl[win]):
        return "win-not-absorbing", "game %s: winning state %d has transitions %r" % (name, win, tl[win])
    losing = [i for i in range(n) if i != win and all(tr[1] == i for tr in tl[i]) and rewards[i] == 0]
    if not losing:
        return "no-losing-state", "game %s: no absorbing zero-reward non-final (losing) state" % name
    return None
