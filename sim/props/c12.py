"""C12 - batch runs solve each game in isolation and report failures."""
from .. import ops, pools, proc, report, textstyle
from ..lit import enc, dec, canon, canon_e, h, short
from . import common
from .common import viol

ID = "C12"
RUNS = {"quick": 1200, "thorough": 8000}
REAL = common.REAL
SIMULATED = common.SIMULATED
ASSUMPTIONS = [
    "expected entry = what a never-used forked process returns for solve(game, prune) on a private copy; games whose pristine solve diverges, exceeds the sweep cap or raises something other than ValueError are left out of batches and counted",
    "total_time is excluded from equality (it is the only clock-dependent field); its relation to the simulated clock is reported as a probe",
    "game names are [a-z0-9_]+; a name equal to another name + '_no_prune' is generated only in dedicated collision probes (open known finding)",
]
RULE = ("run = pool of 2-7 named games (paper/example files, generator boards, random, malformed, no-solution) + 1-8 ops from "
        "{run_games batch through the API re-using the same dict objects (sometimes after a batch aborted by Ctrl-C at a seeded step), CLI batch (write input file, restart, main() [-s] [-l], sometimes with an OSError at open/n-th write/close of the report: the run may fail, but exit status 0 means every entry is in the report), "
        "restart} in seeded orders/subsets with failing games at seeded positions, clock steps/jumps/freezes, log levels, stack "
        "depth; non-trivial = a batch with >=2 games of which one prunes something, or a failing game adjacent to a solvable one; "
        "distinct = hash of (batch shapes, game hashes, fault kinds fired)")

NAMES = ["g", "game_a", "game_b", "x1", "fig_5_5", "a", "b2", "robot_47", "test", "n0", "big_reward", "z_9", "g_", "_", "0", "a_no", "x"*3 + "_" + "9"*40, "no_prune", "x_no_prune_v2", "_no_prune_", "dise\u00f1o", "grid{3x3}", "cell{n_states}", "odds_%_9"]
RESULT_KEYS = ("final_strategies", "reachability_strategies", "rewards", "probabilities",
               "n_iterations_reach", "n_iterations_rew", "prob_min_rew", "rew_min_reach")


def n_fixed(tier):
    return 2


def fixed_specs(tier, ctx):
    """Exemplar of the open name-collision finding: X together with X_no_prune."""
    pp = common.paper_pool(ctx)
    a = pp[0][1] if pp else enc(pools.rand_game(__import__("random").Random(1)))
    b = pp[1][1] if len(pp) > 1 else a
    return [{"cfg": {"klass": "collision"},
             "pool": [{"name": "g", "desc": a, "tag": "paper0"}, {"name": "g_no_prune", "desc": b, "tag": "paper1"}],
             "ops": [{"op": "batch", "games": [0, 1]}]}, _quiet_spec(tier)]


def _quiet_spec(tier):
    """Batches of probe games (ascending size, renumbered states, one failing game among them), then the same
    one-game batch about T/2 times in one process (= T solves), then the probe batches again (see C10)."""
    import random as _r
    rng = _r.Random(12)
    pool = [{"name": "tiny", "desc": enc({"rewards": [1, 0], "players": ["Player 1", "Probabilistic"],
                                            "transition_list": [[("go", 1)], [(1, 1)]], "final_states": [1]}), "tag": "quiet-tiny"}]
    for n in (13, 19, 25, 31, 37, 43):
        pool.append({"name": "probe%d" % n, "desc": enc(pools.permute_states(rng, pools.stopping_game(rng, n, n))), "tag": "quiet-probe"})
    pool.append({"name": "failing", "desc": enc(pools.nosol_game(rng)), "tag": "quiet-nosol"})
    probes = list(range(1, len(pool)))
    targets = [2 ** 8, 2 ** 12, 2 ** 16] if tier == "quick" else [2 ** k for k in range(5, 18)] + [1000, 10000, 100000]
    opl = []
    for T in targets:
        opl.append({"op": "restart", "entropy": T})
        for g in probes:
            opl.append({"op": "batch", "games": [g]})
        opl.append({"op": "quiet", "games": [0], "times": max(1, (T - len(probes) - 1) // 2)})
        for g in probes:
            opl.append({"op": "batch", "games": [g]})
        opl.append({"op": "batch", "games": probes})
    return {"cfg": {"klass": "quiet-stretches"}, "pool": pool, "ops": opl}


def _gen_marathon(rng):
    pool = []
    for i in range(4):
        g = pools.tiny_game(rng) if i < 2 else (pools.nosol_game(rng) if i == 2 else pools.stopping_game(rng, 4, 6))
        pool.append({"name": "m%d" % i, "desc": enc(g), "tag": "marathon"})
    opl = [{"op": "batch", "games": rng.sample(range(4), rng.randint(1, 3))} for _ in range(rng.randint(60, 150))]
    for op in opl:
        if rng.random() < 0.2:
            op["scribble"] = True
    return {"cfg": {"klass": "marathon", "fd_spare": 48}, "pool": pool, "ops": opl}


def gen(rng, tier, ctx):
    if rng.random() < 0.012:
        return _gen_marathon(rng)
    klass = rng.choices(["plain", "faulty", "collision"], [0.45, 0.5, 0.05])[0]
    n = rng.randint(2, 7)
    names = rng.sample(NAMES, n)
    pool = []
    for i in range(n):
        allow_bad = klass != "plain" or rng.random() < 0.4
        tag, e = common.pick_desc(rng, ctx, allow_bad=allow_bad)
        nm = names[i]
        if rng.random() < 0.08:
            nm = nm + "_no_prune"
        pool.append({"name": nm, "desc": e, "tag": tag})
    if rng.random() < 0.3 and n >= 2:
        # a twin of another game of the pool that differs in one type or one value only
        src = rng.randrange(n)
        dst = rng.choice([i for i in range(n) if i != src])
        base = dec(pool[src]["desc"])
        try:
            if rng.random() < 0.5 and isinstance(base, dict) and "players" in base:
                twin, kind_ = pools.variant_game(rng, base)      # well-formed near-twin
                tag_ = "+twin:" + kind_
            else:
                twin = pools.bad_game(rng, base, rng.choice(pools.BAD_RULES + ("succ_float_same", "succ_float_same", "prob_int_as_float")))
                tag_ = "+twin"
            pool[dst] = {"name": pool[dst]["name"], "desc": enc(twin), "tag": pool[src]["tag"] + tag_}
        except Exception:
            pass
    for pe in pool:
        if rng.random() < 0.1:
            # a description that already carries a pruning flag of its own (legal: it is a constructor
            # argument); the batch runner decides the mode of each of its two solves all the same
            d_ = dec(pe["desc"])
            if isinstance(d_, dict):
                d_["prune_states"] = rng.random() < 0.5
                pe["desc"] = enc(d_)
                pe["tag"] = pe["tag"] + "+own-flag"
    if klass == "collision":
        pool[1]["name"] = pool[0]["name"] + "_no_prune"
    else:
        # no accidental collisions
        seen = set()
        for p in pool:
            while p["name"] in seen or p["name"] + "_no_prune" in seen or any(p["name"] == s + "_no_prune" for s in seen):
                p["name"] = p["name"] + "x"
            seen.add(p["name"])
    opl = []
    for _ in range(rng.randint(1, 8 if tier == "thorough" else 5)):
        r = rng.random()
        k = rng.randint(1, min(n, 6))
        games = rng.sample(range(n), k)
        if rng.random() < 0.03:
            games = []          # an empty dictionary of games is a legal input
        if klass == "collision" and rng.random() < 0.7:
            games = [0, 1] + [g for g in games if g > 1]
        env = common.gen_env(rng, faulty=(klass != "plain"))
        if r < 0.55:
            op = {"op": "batch", "games": games}
            if rng.random() < 0.25:
                op["scribble"] = True       # the caller edits the result dictionary it was handed
            if klass == "faulty" and rng.random() < 0.2:
                op["interrupt"] = {"frac": rng.random()}     # Ctrl-C inside the batch; the session goes on
                if rng.random() < 0.4:
                    op["interrupt"]["exc"] = "MemoryError"   # or a failing allocation
        elif r < 0.9:
            op = {"op": "cli", "games": games, "stem": rng.choice(["in1", "My_Games_2", "x", "robot_1_w2"]),
                  "style": rng.choice(textstyle.STYLES), "save": rng.random() < 0.6,
                  "log": rng.choice([None, None, "i", "d"]) if klass != "plain" else None,
                  "entropy": rng.randint(0, 2 ** 32)}
            env.pop("log", None)
            if klass == "faulty" and rng.random() < 0.2:
                # the user aborts the run (Ctrl-C) or it is killed, and the same command is run again
                op["interrupt"] = {"frac": rng.random()}
                if rng.random() < 0.5:
                    op["kill"] = {"keep": rng.choice([0.0, rng.random(), 1.0])}
            elif klass == "faulty" and op["save"] and rng.random() < 0.25:
                on = rng.choice(["write", "write", "close", "close", "open"])
                op["fs_faults"] = [{"on": on, "mode": "w", "nth": 1 if on != "write" else rng.randint(1, 30),
                                    "errno": rng.choice(["ENOSPC", "EIO", "EACCES"]), "partial": rng.choice([0, 0.5])}]
        else:
            op = {"op": "restart", "entropy": rng.randint(0, 2 ** 32)}
            env = {}
        if env:
            op["env"] = env
        opl.append(op)
    if klass != "collision" and rng.random() < 0.12:
        # two batch runs at the same time on two different files, both saving into outputs/
        ga = rng.sample(range(n), rng.randint(1, min(n, 4)))
        gb = rng.sample(range(n), rng.randint(1, min(n, 4)))
        opl.insert(rng.randrange(len(opl) + 1),
                   {"op": "cli_pair", "sched": rng.randint(0, 2 ** 32), "p": rng.choice([0.1, 0.3, 0.3, 0.6]),
                    "a": {"games": ga, "stem": "batch_a", "style": rng.choice(textstyle.STYLES), "entropy": rng.randint(0, 2 ** 32)},
                    "b": {"games": gb, "stem": "batch_b", "style": rng.choice(textstyle.STYLES), "entropy": rng.randint(0, 2 ** 32)}})
    return {"cfg": {"klass": klass, "share_equal_lists": rng.random() < 0.5}, "pool": pool, "ops": opl}


def readable(spec):
    return {"pool": ["%d: %s (%s) = %r" % (i, p["name"], p.get("tag"), dec(p["desc"])) for i, p in enumerate(spec["pool"])],
            "ops": [repr(o) for o in spec["ops"]]}


def simplify(spec):
    yield from common.drop_unused_pool(spec)
    ops_ = spec["ops"]
    for i, op in enumerate(ops_):
        if op.get("games") and len(op["games"]) > 1:
            for j in range(len(op["games"])):
                yield dict(spec, ops=ops_[:i] + [dict(op, games=op["games"][:j] + op["games"][j + 1:])] + ops_[i + 1:])
    for i, op in enumerate(ops_):
        if op["op"] == "cli":
            yield dict(spec, ops=ops_[:i] + [{"op": "batch", "games": op["games"]}] + ops_[i + 1:])
            if op.get("log"):
                yield dict(spec, ops=ops_[:i] + [dict(op, log=None)] + ops_[i + 1:])
            if op.get("style") != "repr":
                yield dict(spec, ops=ops_[:i] + [dict(op, style="repr")] + ops_[i + 1:])
    yield from common.simplify_env(spec)
    # replace a pool game by a tiny solvable one
    tiny = TINY
    for i, p in enumerate(spec["pool"]):
        if canon_e(p["desc"]) != canon_e(tiny):
            np_ = list(spec["pool"])
            np_[i] = dict(p, desc=tiny, tag="tiny")
            yield dict(spec, pool=np_)


def classify(ctx, desc_e):
    rp = common.ref_solve(ctx, desc_e, True)
    if rp["status"] == "exc" and rp["etype"] == "ValueError":
        return "fail", rp, None
    if rp["status"] != "ok":
        return "unusable:" + rp["status"] + (":" + rp.get("etype", "") if rp["status"] == "exc" else ""), rp, None
    ru = common.ref_solve(ctx, desc_e, False)
    if ru["status"] != "ok":
        return "unusable:unpruned-" + ru["status"], rp, ru
    return "ok", rp, ru


TINY = enc({"rewards": [0, 0, 0], "players": ["Probabilistic"] * 3,
            "transition_list": [[(0.5, 1), (0.5, 2)], [(1, 1)], [(1, 2)]], "final_states": [2]})


def alone_msgs(ctx, desc_e):
    """(pruned msg, unpruned msg) the batch runner gives this game when it is the only one,
    in a never-used process; None if that run does not return two entries."""
    cap = getattr(ctx, "sweep_cap", None)
    r = ctx.ref.call("run_alone", {"desc": desc_e, "name": "alone", "sweep_cap": cap},
                     key=("run_alone", canon_e(desc_e), cap))
    if r["status"] != "ok":
        return None
    val = dec(r["value"])
    try:
        ents = list(val.values())
        if len(ents) != 2:
            return None
        return ents[0].get("msg"), ents[1].get("msg")
    except Exception:
        return None


def check_entries(i_op, spec, games, result, ctx, w, states):
    """I12.1-3 on the dict run_games returned for the ordered pool indices `games`."""
    names = [spec["pool"][g]["name"] for g in games]
    want_keys = []
    for nm in names:
        want_keys += [nm, nm + "_no_prune"]
    collision = len(set(want_keys)) != len(want_keys)
    if not isinstance(result, dict):
        return viol("I12.1", i_op, "run_games returned %s, not a dict" % type(result).__name__, "not-a-dict")
    for g, nm in zip(games, names):
        p = spec["pool"][g]
        kind, rp, ru = classify(ctx, p["desc"])
        d = dec(p["desc"])
        for prune, key, r in ((True, nm, rp), (False, nm + "_no_prune", ru)):
            if want_keys.count(key) > 1:
                continue            # overwritten by the collision; judged by I12.1 below
            ent = result.get(key)
            if not isinstance(ent, dict):
                return viol("I12.1", i_op, "no entry %r in the result (keys: %s; batch: %s)" % (key, list(result), names),
                            "name-collision" if collision else "entry-missing")
            if kind == "ok":
                want = dec(r["value"])
                got = tuple(ent.get(k) for k in RESULT_KEYS)
                states.append(h(canon(got)))
                am = alone_msgs(ctx, p["desc"])
                want_msg = am[0 if prune else 1] if am else "Game solved"
                if ent.get("msg") != want_msg:
                    return viol("I12.2", i_op, "game %r (%s) is solvable alone (message %r) but its %s entry says %r (batch order %s)" % (
                        nm, p.get("tag"), want_msg, "pruned" if prune else "unpruned", ent.get("msg"), names), "solvable-marked-failed")
                if canon(got) != canon(want):
                    return viol("I12.2", i_op, "entry %r (%s) differs from solving the game alone (batch order %s): got %s, alone %s" % (
                        key, p.get("tag"), names, short(got, 500), short(want, 500)), "result-differs")
                try:
                    n_tr = sum(len(t) for t in d["transition_list"])
                    if ent.get("n_states") != len(d["players"]) or ent.get("n_transitions") != n_tr:
                        return viol("I12.2", i_op, "entry %r reports %r states / %r transitions, the game has %d / %d" % (
                            key, ent.get("n_states"), ent.get("n_transitions"), len(d["players"]), n_tr), "counts-differ")
                except Exception:
                    pass
            else:
                m = rp["emsg"]
                am = alone_msgs(ctx, p["desc"])
                solved = alone_msgs(ctx, TINY)
                if prune:
                    want_msg = am[0] if am else "Error while solving the game: " + m
                    if ent.get("msg") != want_msg or m not in str(ent.get("msg")):
                        return viol("I12.3", i_op, "game %r (%s) fails alone with ValueError(%r) (entry message alone: %r) but its entry says %r" % (
                            nm, p.get("tag"), m, want_msg, ent.get("msg")), "failure-message")
                else:
                    want_msg = am[1] if am else "Game not solved"
                    if ent.get("msg") != want_msg or (solved and ent.get("msg") == solved[1]):
                        return viol("I12.3", i_op, "unpruned entry of failing game %r says %r; alone it says %r and a solved game says %r" % (
                            nm, ent.get("msg"), want_msg, solved[1] if solved else None), "failure-message")
                if any(ent.get(k) is not None for k in ("final_strategies", "reachability_strategies", "rewards", "probabilities")):
                    return viol("I12.3", i_op, "entry %r of a failing game carries results: %s" % (key, short(ent, 300)),
                                "failure-has-results")
    if list(result.keys()) != want_keys:
        return viol("I12.1", i_op, "result keys %s, expected %s" % (list(result.keys()), want_keys),
                    "name-collision" if collision else "keys-differ")
    return None


def execute(spec, w, ctx):
    pool = spec["pool"]
    live = [dec(p["desc"]) for p in pool]
    if (spec.get("cfg") or {}).get("share_equal_lists"):
        # games built from one another (`dict(base, players=...)`) share the list objects they have in common
        for j in range(len(live)):
            for i in range(j):
                if isinstance(live[i], dict) and isinstance(live[j], dict):
                    for fld in ("transition_list", "final_states", "rewards", "players"):
                        a_, b_ = live[i].get(fld), live[j].get(fld)
                        if isinstance(a_, list) and isinstance(b_, list) and a_ is not b_ and canon(a_) == canon(b_):
                            live[j][fld] = a_
    events, states, discards = [], [], {}
    res = {"events": events, "states": states, "discards": discards, "violation": None, "known": []}
    kinds = {}
    for i, p in enumerate(pool):
        kinds[i] = classify(ctx, p["desc"])[0]
    nontrivial = False
    shapes = []
    w.restart(0)

    def usable(games):
        out = []
        for g in games:
            if g >= len(pool):
                continue
            if kinds[g].startswith("unusable"):
                discards[kinds[g]] = discards.get(kinds[g], 0) + 1
                continue
            out.append(g)
        return out

    def budget(games):
        t = 0
        for g in games:
            _, rp, ru = classify(ctx, pool[g]["desc"])
            t += (rp.get("steps") or 0) + ((ru or {}).get("steps") or 0)
        return 20 * t + 100000

    def probes(games):
        nonlocal nontrivial
        ks = [kinds[g] for g in games]
        if len(games) >= 2:
            for a, b in zip(ks, ks[1:]):
                if {a, b} == {"ok", "fail"}:
                    nontrivial = True
            if ks[0] == "fail" and "ok" in ks:
                w.probe("failing-game-first")
            if ks[-1] == "fail" and "ok" in ks:
                w.probe("failing-game-last")
            if any(k == "fail" for k in ks[1:-1]) and ks[0] == "ok" and ks[-1] == "ok":
                w.probe("failing-game-between")
            if all(k == "fail" for k in ks):
                w.probe("all-games-fail")
            for g in games:
                if kinds[g] == "ok":
                    _, rp, ru = classify(ctx, pool[g]["desc"])
                    if canon_e(rp["value"]) != canon_e(ru["value"]):
                        nontrivial = True
                        w.probe("game-where-pruning-matters")
                        break
        w.fired("failing-game", sum(1 for k in ks if k == "fail"))

    for i_op, op in enumerate(spec["ops"]):
        v = None
        kind = op["op"]
        if kind == "restart":
            w.restart(op.get("entropy", 0))
            events.append([i_op, "restart"])
            continue
        if kind == "cli_pair":
            sides = []
            for x_ in (op["a"], op["b"]):
                gs = usable(x_.get("games", []))
                nm = [pool[g]["name"] for g in gs]
                if not gs or len(set(nm)) != len(nm):
                    sides = None
                    break
                path_ = "inputs/%s.py" % x_["stem"]
                w.fs.write_text(path_, textstyle.render({pool[g]["name"]: dec(pool[g]["desc"]) for g in gs}, x_.get("style", "repr"),
                                                        x_.get("entropy", 0)))
                sides.append((x_, gs, path_))
            if not sides:
                continue
            cfg_p = {"step_cap": budget(sides[0][1]) + budget(sides[1][1])}
            cap_a, cap_b = {}, {}

            def summ_b(out_):
                s_ = ops.brief(out_)
                s_["ret"] = enc(cap_b["ret_obj"]) if "ret_obj" in cap_b else None
                return s_
            out_a, res_b = ops.concurrently(
                w, int(op.get("sched", 0)), float(op.get("p", 0.3)),
                lambda: ops.solver_cli(w, sides[0][2], True, None, dict(cfg_p), sides[0][0].get("entropy", 0), cap_a),
                lambda: ops.solver_cli(w, sides[1][2], True, None, dict(cfg_p), sides[1][0].get("entropy", 0), cap_b), summ_b)
            events.append([i_op, "cli_pair", out_a["status"], res_b["status"], res_b.get("trace")])
            shapes.append("P")
            rets = [cap_a.get("ret_obj"), dec(res_b["ret"]) if res_b.get("ret") is not None else None]
            for (x_, gs, path_), out_, ret_ in zip(sides, (out_a, res_b), rets):
                if out_["status"] != "ok":
                    v = viol("I12.3", i_op, "`conditionalrewards.py -f %s -s`, run at the same time as another batch run in the same folder, did not finish: %s" % (
                        path_, _show(out_)), "batch-aborted")
                elif ret_ is not None:
                    v = check_entries(i_op, spec, gs, ret_, ctx, w, states)
                if v is None and out_["status"] == "ok":
                    v = _check_report(i_op, w, x_, gs, spec, ctx)
                if v is not None:
                    v["msg"] = "two batch runs at the same time: " + v["msg"]
                    break
            if v is None:
                nontrivial = True
                continue
            if ctx.known_match(ID, v) is not None:
                res["known"].append(v)
                continue
            res["violation"] = v
            break
        games = usable(op.get("games", []))
        if not games and op.get("games"):
            continue
        if not games:
            w.probe("empty-batch")
        probes(games)
        shapes.append(kind + ":" + ",".join(kinds[g][0] for g in games))
        cfg = common.env_cfg(op)
        cfg["step_cap"] = budget(games)
        heavy = cfg["step_cap"] > 20 * 30000 + 100000
        if heavy and cfg.get("log") == "d":
            cfg["log"] = "i"    # debug logging emits a record per state per sweep
        if kind == "quiet":
            arg = {pool[g]["name"]: live[g] for g in games}
            times = int(op["times"])

            def thunk():
                run = proc.mod("conditionalrewards").run_games
                first = None
                for k in range(times):
                    if k % 64 == 0 and not w.quiet_budget_left():
                        break
                    r_ = run(arg)
                    cur = canon({n_: {f: x for f, x in e.items() if f != "total_time"} for n_, e in r_.items()})
                    if first is None:
                        first = (cur, r_)
                    elif cur != first[0]:
                        return (k, first[1], r_)
                return (None, first[1] if first else {}, None)
            out = w.run_op(thunk, {"step_cap": 40 * times * max(1, cfg["step_cap"] // 20) + 100000})
            w.fired("quiet-stretch-batches", times)
            events.append([i_op, "quiet", times, out["status"]])
            if out["status"] != "ok":
                v = viol("I12.3", i_op, "%d identical batches in a row did not finish: %s" % (times, _show(out)), "batch-aborted")
            else:
                k_, first_, cur_ = out["value"]
                if k_ is not None:
                    v = viol("I12.2", i_op, "batch #%d of the same games in a row differs from the first: %s vs %s" % (
                        k_ + 1, short(cur_, 300), short(first_, 300)), "entry-differs")
                else:
                    v = check_entries(i_op, spec, games, first_, ctx, w, states)
        elif kind == "batch":
            arg = {pool[g]["name"]: live[g] for g in games}
            if op.get("interrupt") and not heavy and cfg["step_cap"] < 20 * 6000 + 100000:
                # measure a clean execution in fine steps (checked like any other), then interrupt a second one;
                # whatever the aborted batch left in the process must not leak into later batches
                c0 = dict(cfg, fine=True, step_cap=40 * cfg["step_cap"])
                out0 = ops.run_games(w, arg, c0)
                if out0["status"] == "ok":
                    v = check_entries(i_op, spec, games, out0["value"], ctx, w, states)
                    if v is None:
                        ci = dict(c0, interrupt={"frac": op["interrupt"]["frac"], "total": out0["steps"],
                                                 "exc": op["interrupt"].get("exc")})
                        outi = ops.run_games(w, arg, ci)
                        events.append([i_op, "batch-interrupted", outi["status"], outi.get("site")])
                        if outi["status"] == "interrupt" or outi.get("injected"):
                            w.probe("interrupt-in:" + str(outi.get("site", "?")).split(":")[0])
                        if outi["status"] == "ok" and outi.get("injected"):
                            # the injected failure was swallowed: the batch claims success, so it must be right
                            v = check_entries(i_op, spec, games, outi["value"], ctx, w, states)
                            if v is not None and v["sig"]["class"] == "solvable-marked-failed":
                                w.probe("injected-failure-reported-in-entry")    # says it failed: that is allowed
                                v = None
                            if v is not None:
                                v["msg"] = "run_games returned normally although a MemoryError was injected at %s, yet: %s" % (
                                    outi.get("site"), v["msg"])
                if v is not None:
                    if ctx.known_match(ID, v) is not None:
                        res["known"].append(v)
                        v = None
                    else:
                        res["violation"] = v
                        break
            out = ops.run_games(w, arg, cfg)
            s_status = out["status"]
            events.append([i_op, "batch", [pool[g]["name"] for g in games], s_status, out["steps"]])
            if s_status != "ok":
                v = viol("I12.3", i_op, "run_games(%s) did not return: %s" % ([pool[g]["name"] for g in games], _show(out)),
                         "batch-aborted")
            else:
                v = check_entries(i_op, spec, games, out["value"], ctx, w, states)
                _clock_probe(w, out, out["value"])
                if op.get("scribble"):
                    w.fired("caller-edits-returned-value", ops.scribble(out["value"], ops.container_ids(live)))
        elif kind == "cli":
            names = [pool[g]["name"] for g in games]
            if len(set(names)) != len(names):
                continue
            text = textstyle.render({pool[g]["name"]: dec(pool[g]["desc"]) for g in games}, op.get("style", "repr"),
                                    op.get("entropy", 0))
            path = "inputs/%s.py" % op.get("stem", "in")
            w.fs.write_text(path, text)
            cap = {}
            log = op.get("log")
            if heavy and log == "d":
                log = "i"
            if op.get("fs_faults"):
                cfg["fs_faults"] = op["fs_faults"]
            if op.get("interrupt") and not heavy and cfg["step_cap"] < 20 * 6000 + 100000:
                c0 = dict(cfg, fine=True, step_cap=40 * cfg["step_cap"])
                c0.pop("fs_faults", None)
                out0 = ops.solver_cli(w, path, bool(op.get("save")), log, c0, op.get("entropy", 0), {})
                if out0["status"] == "ok":
                    ci = dict(c0, interrupt={"at": common.interrupt_at(op["interrupt"], out0)})
                    if op.get("kill"):
                        ci["kill"] = op["kill"]
                    outi = ops.solver_cli(w, path, bool(op.get("save")), log, ci, op.get("entropy", 0), {})
                    events.append([i_op, "cli-interrupted", outi["status"], outi.get("site")])
                    if outi["status"] == "interrupt":
                        w.probe("interrupt-in:" + str(outi.get("site", "?")).split(":")[0])
                        w.probe("same-command-rerun-after-abort")
            out = ops.solver_cli(w, path, bool(op.get("save")), log, cfg, op.get("entropy", 0), cap)
            events.append([i_op, "cli", names, out["status"], out["steps"], bool(op.get("save")), op.get("log"), out["fs_fired"]])
            if out["fs_fired"] and out["status"] != "ok":
                w.probe("cli-failed-loudly-under-io-fault")     # allowed: the run says it failed
            elif out["status"] != "ok":
                v = viol("I12.3", i_op, "`conditionalrewards.py -f %s%s` over games %s did not finish: %s" % (
                    path, " -s" if op.get("save") else "", names, _show(out)), "batch-aborted")
            elif "ret_obj" in cap:
                v = check_entries(i_op, spec, games, cap["ret_obj"], ctx, w, states)
                _clock_probe(w, out, cap["ret_obj"])
                if v is None and op.get("save"):
                    v = _check_report(i_op, w, op, games, spec, ctx)
                    if v is not None and out["fs_fired"]:
                        v["msg"] = "exit status 0 although an I/O fault fired (%s), yet: %s" % (out["fs_fired"], v["msg"])
                        v["sig"]["class"] = "silent-failure:" + v["sig"]["class"]
            elif op.get("save"):
                v = _check_report(i_op, w, op, games, spec, ctx)
        if v is not None:
            if ctx.known_match(ID, v) is not None:
                res["known"].append(v)
                continue
            res["violation"] = v
            break
    res["nontrivial"] = nontrivial
    res["signature"] = h("|".join(shapes) + "#" + ",".join(h(canon_e(p["desc"])) for p in pool) + "#" + ",".join(sorted(w.fault_counts)))
    return res


def _check_report(i_op, w, op, games, spec, ctx):
    """The CLI's observable output: the saved report must carry the same entries."""
    rel = "outputs/%s.txt" % op.get("stem", "in")
    try:
        text = w.fs.read_text(rel)
        blocks = report.parse(text)
    except Exception as e:  # noqa
        return viol("I12.1", i_op, "saved report %s unreadable: %s" % (rel, e), "report-unreadable")
    result = {}
    for b in blocks:
        result[b.get("name")] = b
    w.probe("cli-report-checked")
    return check_entries(i_op, spec, games, result, ctx, w, [])


def _clock_probe(w, out, result):
    reads = out.get("clock_reads") or []
    try:
        ents = list(result.values())
        if len(reads) == 2 * len(ents):
            ok = all(e.get("total_time") == reads[2 * j + 1] - reads[2 * j] for j, e in enumerate(ents))
            w.probe("total_time-equals-simclock-difference" if ok else "total_time-NOT-simclock-difference")
            if any(e.get("total_time", 0) < 0 for e in ents):
                w.probe("negative-total_time-seen")
            if any(e.get("total_time", 1) == 0 for e in ents):
                w.probe("zero-total_time-seen")
    except Exception:
        pass


def _show(out):
    if out["status"] == "exc":
        return "%s(%r)" % (out["etype"], out["emsg"])
    return "%s %s" % (out["status"], out.get("info") or out.get("code") or "")
