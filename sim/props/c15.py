"""C15 - random boards are reproducible, in range and honour their parameters."""
import math
import random

from .. import ops, pools, proc
from ..lit import enc, dec, canon, canon_e, h, short
from . import common, genops
from .common import viol

ID = "C15"
RUNS = {"quick": 3000, "thorough": 20000}
REAL = common.REAL
SIMULATED = common.SIMULATED
ASSUMPTIONS = [
    "reproducibility oracle = the board / file the same parameters give in a never-used forked process with an empty disk",
    "loose-tile frequency is judged on the pooled tiles of boards with pairwise different seeds only (same seed = same uniform stream, not independent), by a 6-sigma bound per probability class",
    "the property quantifies over seeds of the real Mersenne Twister; random.random() returning exactly 0.0 is not forced",
    "refusal is observed at main(): ValueError, no write-mode open, unchanged disk snapshot; argparse type errors (non-numeric text) are outside the documented ranges and not exercised",
]
RULE = ("run = 4-30 ops from {gen_rnd_board through the API in a long-lived process, other tenants seeding/drawing from the global "
        "PRNG, generator CLI after a restart with seeded OS entropy, the same parameters again later (also after a generation that was failed by an injected OSError or Ctrl-C, and from inside one long-lived driver process), a host process logging at INFO/DEBUG, CLI with one out-of-range "
        "parameter (every boundary of the eight checks), restart}; non-trivial = the same parameter set generated at least twice "
        "with tenant activity or a restart in between, or a refusal checked against the disk; distinct = hash of (parameter sets, op kinds)")

BAD = {
    "seed": [-1, -5, -2 ** 40],
    "width": [0, -1, -100],
    "length": [0, -1, -7],
    "max_reward": [0, -1, -64],
    "prob": [0.0, -0.0, 1.0, 1.0000000000000002, -0.1, 1.5, -1e-300, float("inf"), float("-inf"), float("nan"), 2, -1, 0, 1],
}
EDGE_OK = [1e-300, 5e-324, 1 - 2 ** -53, 0.9999999999999999, 0.5, 1e-9]


def n_fixed(tier):
    return 4


def fixed_specs(tier, ctx):
    """Every boundary value of every range check, one at a time, against a disk holding a file."""
    base = {"seed": 3, "width": 2, "length": 2, "max_reward": 6, "rb": 0.1, "lb": 0.2, "tb": 0.3, "lt": 0.4, "force_down": False}
    opl = [{"op": "gen_cli", "params": base}]
    for key in ("seed", "width", "length", "max_reward"):
        for v in BAD[key]:
            opl.append({"op": "gen_cli_bad", "params": dict(base, **{key: v}), "bad": key})
    for key in ("rb", "lb", "tb", "lt"):
        for v in BAD["prob"]:
            opl.append({"op": "gen_cli_bad", "params": dict(base, **{key: v}), "bad": key})
        for v in EDGE_OK:
            opl.append({"op": "gen_cli", "params": dict(base, **{key: v})})
    # pairs of out-of-range sizes (a product or sum of both must not hide them)
    for a in (0, -1, -3):
        for b in (0, -1, -2):
            opl.append({"op": "gen_cli_bad", "params": dict(base, width=a, length=b), "bad": "width+length"})
    opl.append({"op": "gen_cli_bad", "params": dict(base, seed=-1, max_reward=-1), "bad": "seed+max_reward"})
    opl.append({"op": "gen_cli_bad", "params": dict(base, rb=-0.5, lb=1.5), "bad": "rb+lb"})
    for m in (1, 1022, 1023, 1024, 100000):
        opl.append({"op": "gen_cli", "params": dict(base, max_reward=m)})
        opl.append({"op": "board", "params": dict(base, max_reward=m)})
    # range soak: millions of tiles at the smallest maximum rewards (absolute check only, no reference call)
    n_boards = 3000 if tier == "quick" else 12000
    soak = [{"op": "board_range", "params": dict(base, seed=50000 + i, width=40, length=40,
                                                 lt=(0.3, 0.004, 0.996, 0.125, 0.0349, 0.9651, 0.3, 0.5049)[i % 8],
                                                 max_reward=(1, 1, 1, 2, 3)[i % 5], force_down=bool(i % 2))}
            for i in range(n_boards)]
    # long quiet stretches: probe boards, one 1x1 board drawn about T times in the same process, the probes again
    quiet = []
    probes = [dict(base, seed=70 + i, width=w_, length=l_, force_down=bool(i % 2), lt=(0.3, 0.304, 0.71)[i % 3])
              for i, (w_, l_) in enumerate([(1, 1), (2, 3), (4, 4), (7, 5), (9, 9), (12, 16), (20, 20), (33, 30)])]
    for T in ([2 ** 8, 2 ** 12, 2 ** 16] if tier == "quick" else [2 ** k for k in range(5, 19)] + [1000, 10000, 100000]):
        quiet.append({"op": "restart", "entropy": T})
        quiet += [{"op": "board", "params": q} for q in probes]
        quiet.append({"op": "board_quiet", "params": dict(base, seed=9, width=1, length=1), "times": max(1, T - len(probes) // 2 - 1)})
        quiet += [{"op": "board", "params": q} for q in probes]
    return [{"cfg": {"klass": "boundaries"}, "ops": opl},
            {"cfg": {"klass": "boundaries-python-OO", "optimize": 2}, "ops": opl},
            {"cfg": {"klass": "range-soak"}, "ops": soak},
            {"cfg": {"klass": "quiet-stretches"}, "ops": quiet}]


def _bparams(rng):
    cls = rng.choices(["tiny", "small", "wide", "big"], [0.4, 0.35, 0.15, 0.1])[0]
    p = pools.gen_params(rng, "tiny" if cls == "tiny" else "small" if cls == "small" else "wide")
    if cls == "big":
        p["width"], p["length"] = rng.randint(10, 40), rng.randint(10, 40)
    if rng.random() < 0.6:
        p["seed"] = rng.randint(1000, 2 ** 48)
    if rng.random() < 0.1:
        p["lt"] = rng.choice(EDGE_OK)
    if rng.random() < 0.05:
        p["max_reward"] = rng.choice([1, 1022, 1023, 2000])
    return p


def _gen_marathon(rng):
    base = pools.gen_params(rng, "tiny")
    opl = []
    for i in range(rng.randint(300, 800)):
        r = rng.random()
        p = dict(base, seed=rng.choice([base["seed"], 1000 + rng.randint(0, 50)]), lt=rng.choice([base["lt"], pools.pct(rng)]))
        if r < 0.8:
            opl.append({"op": "board", "params": p})
            if rng.random() < 0.2:
                opl[-1]["scribble"] = True
        elif r < 0.9:
            opl.append({"op": "tenant", "what": rng.choice(["seed", "draw", "shuffle"]), "arg": rng.randint(0, 2 ** 32), "n": rng.randint(1, 20)})
        else:
            opl.append({"op": "gen_cli", "params": dict(p, width=min(p["width"], 2), length=min(p["length"], 2)),
                        "same_process": True, "entropy": rng.randint(0, 2 ** 32)})
    return {"cfg": {"klass": "marathon", "fd_spare": 48}, "ops": opl}


def gen(rng, tier, ctx):
    if rng.random() < 0.01:
        return _gen_marathon(rng)
    psets = [_bparams(rng) for _ in range(rng.randint(1, 4))]
    if rng.random() < 0.1:
        # seeds that collide under CPython's integer hash (modulus 2**61 - 1), and int/float-equal twins
        psets.append(dict(psets[0], seed=psets[0]["seed"] + 2 ** 61 - 1))
    if rng.random() < 0.4:
        # a second parameter set that differs from the first only below one percent: same file name, other board
        q = dict(psets[0])
        key = rng.choice(["lt", "lt", "rb", "lb", "tb"])
        k = int(q[key] * 100)
        q[key] = min(0.999999, max(1e-9, (k + rng.choice([0.1, 0.3, 0.49, 0.7, 0.9])) / 100))
        psets[0] = dict(psets[0], **{key: (k + 0.2) / 100 if k > 0 else 0.002})
        psets.append(q)
    opl = []
    for _ in range(rng.randint(4, 30 if tier == "thorough" else 14)):
        r = rng.random()
        p = rng.choice(psets)
        if r < 0.4:
            op = {"op": "board", "params": p}
            if rng.random() < 0.3:
                op["scribble"] = True       # the caller edits the board it got (hand-made variant workflow)
            if rng.random() < 0.4:
                op["env"] = {"pollute": rng.randint(0, 2 ** 32)}
            if rng.random() < 0.1:
                op.setdefault("env", {})["depth"] = rng.choice([100, 400])
            if rng.random() < 0.15:
                op.setdefault("env", {})["log"] = rng.choice(["i", "d", "d"])    # host process logs at INFO/DEBUG
        elif r < 0.55:
            op = {"op": "tenant", "what": rng.choice(["seed", "draw", "seed_none_like", "shuffle"]),
                  "arg": rng.randint(0, 2 ** 32), "n": rng.randint(1, 50)}
        elif r < 0.75:
            small = p if p["width"] * p["length"] <= 100 else dict(p, width=rng.randint(1, 6), length=rng.randint(1, 6))
            op = {"op": "gen_cli", "params": small, "entropy": rng.randint(0, 2 ** 32)}
            if rng.random() < 0.25:
                op["same_process"] = True           # main() called again from a long-lived driver
            if rng.random() < 0.15:
                op["env"] = {"log": rng.choice(["i", "d"])}
            f = rng.random()
            if f < 0.12:
                op["fs_faults"] = [{"on": rng.choice(["write", "write", "close"]), "mode": "w", "nth": rng.randint(1, 12),
                                    "errno": rng.choice(["ENOSPC", "EIO"]), "partial": rng.choice([0, 0.5])}]
            elif f < 0.2:
                op["interrupt"] = {"frac": rng.random()}
                if rng.random() < 0.4:
                    op["interrupt"]["exc"] = "MemoryError"
        elif r < 0.93:
            key = rng.choice(["seed", "width", "length", "max_reward", "rb", "lb", "tb", "lt"])
            vals = BAD["prob"] if key in ("rb", "lb", "tb", "lt") else BAD[key]
            small = dict(p, width=min(p["width"], 4), length=min(p["length"], 4))
            bp = dict(small, **{key: rng.choice(vals)})
            bad = key
            if rng.random() < 0.3:
                # two parameters out of range at once (their errors must not cancel)
                key2 = rng.choice([k_ for k_ in ("seed", "width", "length", "max_reward", "rb", "lb", "tb", "lt") if k_ != key])
                vals2 = BAD["prob"] if key2 in ("rb", "lb", "tb", "lt") else BAD[key2]
                bp[key2] = rng.choice(vals2)
                bad = key + "+" + key2
            op = {"op": "gen_cli_bad", "params": bp, "bad": bad, "entropy": rng.randint(0, 2 ** 32)}
            if rng.random() < 0.25:
                op["no_inputs_dir"] = True      # run from a directory that has no inputs/ folder (yet)
        else:
            op = {"op": "restart", "entropy": rng.randint(0, 2 ** 32)}
        opl.append(op)
    if rng.random() < 0.12:
        small = [dict(q, width=min(q["width"], 5), length=min(q["length"], 5)) for q in psets]
        opl.insert(rng.randrange(len(opl) + 1), genops.make_pair(rng, rng.choice(small), rng.choice(small)))
    return {"cfg": {"klass": "plain"}, "ops": opl}


def readable(spec):
    return {"ops": [repr(o) for o in spec["ops"]]}


def simplify(spec):
    yield from common.simplify_env(spec)
    ops_ = spec["ops"]
    for i, op in enumerate(ops_):
        if "params" in op:
            p = op["params"]
            for key, small in (("width", 1), ("length", 1), ("seed", 0)):
                if isinstance(p[key], int) and p[key] > small and key not in str(op.get("bad")):
                    yield dict(spec, ops=ops_[:i] + [dict(op, params=dict(p, **{key: max(small, p[key] // 2)}))] + ops_[i + 1:])
            if p.get("force_down") :
                yield dict(spec, ops=ops_[:i] + [dict(op, params=dict(p, force_down=False))] + ops_[i + 1:])


def check_board(p, val):
    """I15.1; returns (class, message) or None."""
    if not (isinstance(val, tuple) and len(val) == 3):
        return "shape", "gen_rnd_board returned %s" % short(val, 200)
    mv, rw, lo = val
    L, W = p["length"], p["width"]
    for nm, m in (("moves", mv), ("rewards", rw), ("loose_tiles", lo)):
        if not (isinstance(m, list) and len(m) == L and all(isinstance(r, list) and len(r) == W for r in m)):
            return "shape", "%s is not %d rows x %d columns: %s" % (nm, L, W, short(m, 200))
    for r in rw:
        for x in r:
            if not (type(x) is int and 0 <= x <= p["max_reward"]):
                return "reward-range", "reward %r outside 0..%d (or not an int)" % (x, p["max_reward"])
    for r in lo:
        for x in r:
            if not (type(x) is int and x in (0, 1)):
                return "loose-flag", "loose-tile flag %r" % (x,)
    allowed = (0, 1, 2, 3) if p["force_down"] else (0, 1, 2)
    for r in mv:
        for x in r:
            if not (type(x) is int and x in allowed):
                return "arrow-range", "arrow %r with force_down=%s" % (x, p["force_down"])
        if p["force_down"] and 3 not in r:
            return "no-down-tile", "row %r has no down-only tile although force-down is set" % (r,)
    return None


def execute(spec, w, ctx):
    events, states, discards = [], [], {}
    res = {"events": events, "states": states, "discards": discards, "violation": None, "known": []}
    agg = []
    seen = {}
    nontrivial = False
    disturbed = False
    kinds = []
    w.restart(0)
    for i_op, op in enumerate(spec["ops"]):
        kind = op["op"]
        kinds.append(kind)
        v = None
        if kind == "restart":
            w.restart(op.get("entropy", 0))
            disturbed = True
            continue
        if kind == "gen_pair":
            out_a, res_b, before_p, after_p = genops.run_gen_pair(w, op)
            events.append([i_op, "gen_pair", out_a["status"], res_b["status"], res_b.get("trace")])
            pb_ = genops.pair_problem(ctx, op, out_a, res_b, before_p, after_p)
            disturbed = True
            if pb_ is not None:
                res["violation"] = viol("I15.2", i_op, pb_[1], pb_[0])
                break
            nontrivial = True
            continue
        if kind == "tenant":
            rnd = random
            if op["what"] == "seed":
                rnd.seed(op["arg"])
            elif op["what"] == "seed_none_like":
                rnd.seed(str(op["arg"]))
            elif op["what"] == "shuffle":
                lst = list(range(op["n"]))
                rnd.shuffle(lst)
            else:
                for _ in range(op["n"]):
                    rnd.random()
            w.fired("prng-tenant-" + op["what"])
            disturbed = True
            continue
        p = op["params"]
        key = canon(p)
        if kind == "board_quiet":
            times = int(op["times"])

            def thunk():
                gen_ = proc.mod("roberta_generator").gen_rnd_board
                first = None
                for k_ in range(times):
                    if k_ % 64 == 0 and not w.quiet_budget_left():
                        break
                    cur = gen_(p["seed"], p["length"], p["width"], p["lt"], p["max_reward"], p["force_down"])
                    if first is None:
                        first = cur
                    elif cur != first:
                        return (k_, first, cur)
                return (None, first, None)
            out = w.run_op(thunk, {"step_cap": 10 ** 9})
            w.fired("quiet-stretch-boards", times)
            events.append([i_op, "board_quiet", times, out["status"]])
            if out["status"] != "ok":
                v = viol("I15.1", i_op, "%d identical gen_rnd_board calls in a row did not finish: %s" % (times, genops.show(out)), "board-crashed")
            elif out["value"][0] is not None:
                v = viol("I15.2", i_op, "gen_rnd_board(%s): call #%d in a row returned %s, the first returned %s" % (
                    _pp(p), out["value"][0] + 1, short(out["value"][2], 200), short(out["value"][1], 200)), "board-not-reproducible")
            disturbed = True
        elif kind == "board_range":
            out = ops.board(w, p, {})
            if out["status"] != "ok":
                v = viol("I15.1", i_op, "gen_rnd_board(%s) did not return: %s" % (_pp(p), genops.show(out)), "board-crashed")
            else:
                cb = check_board(p, out["value"])
                if cb is not None:
                    v = viol("I15.1", i_op, "gen_rnd_board(%s): %s" % (_pp(p), cb[1]), cb[0])
                elif isinstance(out["value"], tuple) and len(out["value"]) == 3:
                    agg.append([p["seed"], p["lt"], p["width"] * p["length"], sum(sum(r_) for r_ in out["value"][2])])
                w.probe("tiles-range-checked", p["width"] * p["length"])
        elif kind == "board":
            out = ops.board(w, p, common.env_cfg(op))
            r = ctx.ref.call("board", {"params": p}, key=("board", key))
            events.append([i_op, "board", out["status"], h(canon(out.get("value"))) if out["status"] == "ok" else out.get("etype")])
            if out["status"] != "ok":
                v = viol("I15.1", i_op, "gen_rnd_board(%s) on accepted parameters did not return: %s" % (_pp(p), genops.show(out)),
                         "board-crashed", etype=out.get("etype"))
            else:
                cb = check_board(p, out["value"])
                if cb is not None:
                    v = viol("I15.1", i_op, "gen_rnd_board(%s): %s" % (_pp(p), cb[1]), cb[0])
                elif r["status"] != "ok" or canon_e(r["value"]) != canon(out["value"]):
                    v = viol("I15.2", i_op, "gen_rnd_board(%s) after this history returned %s; a fresh process returns %s" % (
                        _pp(p), short(out["value"], 300), short(dec(r["value"]) if r["status"] == "ok" else r, 300)),
                        "board-not-reproducible")
                else:
                    states.append(h(canon(out["value"])))
                    if key in seen and disturbed:
                        nontrivial = True
                    seen[key] = True
                    if isinstance(p["seed"], int) and p["seed"] >= 1000:
                        lo = out["value"][2]
                        n = p["width"] * p["length"]
                        agg.append([p["seed"], p["lt"], n, sum(sum(r_) for r_ in lo)])
            if op.get("scribble") and out["status"] == "ok":
                w.fired("caller-edits-returned-value", ops.scribble(out["value"]))
        elif kind == "gen_cli":
            cfg = common.env_cfg(op)
            if op.get("fs_faults"):
                cfg["fs_faults"] = op["fs_faults"]
            if op.get("interrupt"):
                # measure a clean execution in fine steps (checked below like any other), then interrupt one
                out0, b0, a0, ch0, wo0 = genops.run_gen(w, op, dict(cfg, fine=True, fs_faults=None))
                if out0["status"] == "ok":
                    opens = [e[4] for e in out0["fs_events"] if genops.is_write_open(e)]
                    lo = opens[0] if opens else 1
                    cfg["interrupt"] = {"at": common.interrupt_at(op["interrupt"], out0, lo), "exc": op["interrupt"].get("exc")}
            out, before, after, changed, wopens = genops.run_gen(w, op, cfg)
            faulted = bool(out["fs_fired"]) or out["status"] == "interrupt" or bool(out.get("injected"))
            r = genops.ref_gen(ctx, op)
            events.append([i_op, "gen_cli", out["status"], changed, out["fs_fired"]])
            if faulted and out["status"] != "ok":
                # a run that was made to fail may fail; the same command must still reproduce afterwards
                out, before, after, changed, wopens = genops.run_gen(w, op, common.env_cfg(op))
                events.append([i_op, "gen_cli-rerun", out["status"], changed])
                w.probe("rerun-after-failed-generation")
            if out["status"] != "ok":
                v = viol("I15.1", i_op, "`roberta_generator.py %s` (accepted parameters) did not finish: %s" % (
                    " ".join(ops.gen_argv(p)[1:]), genops.show(out)), "generator-crashed", etype=out.get("etype"))
            elif r["status"] == "ok":
                mine = {k: after[k] for k in genops.game_files(wopens)}
                if mine != r["files"]:
                    v = viol("I15.2", i_op, "`roberta_generator.py %s` wrote %s; a fresh process with an empty disk writes %s" % (
                        " ".join(ops.gen_argv(p)[1:]), {k: h(v_) for k, v_ in mine.items()}, {k: h(v_) for k, v_ in r["files"].items()}),
                        "file-not-reproducible")
                else:
                    if key in seen and disturbed:
                        nontrivial = True
                    seen[key] = True
                    for v_ in mine.values():
                        states.append(h(v_))
                    # same seed and parameters => same board, whichever entry point drew it: the board the
                    # file depicts must be the one gen_rnd_board returns for these parameters
                    drawn = [genops.board_from_preamble(v_) for v_ in mine.values()]
                    rb_ = ctx.ref.call("board", {"params": p}, key=("board", key))
                    if len(drawn) == 1 and drawn[0] is not None and rb_["status"] == "ok":
                        w.probe("cli-board-compared-with-library-board")
                        if canon(drawn[0]) != canon(tuple(dec(rb_["value"]))):
                            v = viol("I15.2", i_op, "`roberta_generator.py %s` depicts the board %s in its file; gen_rnd_board(%s) returns %s" % (
                                " ".join(ops.gen_argv(p)[1:]), short(drawn[0], 300), _pp(p), short(dec(rb_["value"]), 300)),
                                "cli-board-differs-from-library-board")
        elif kind == "gen_cli_bad":
            import os as _os
            moved = False
            if op.get("no_inputs_dir"):
                try:
                    _os.rename(_os.path.join(w.root, "inputs"), _os.path.join(w.root, "inputs_elsewhere"))
                    moved = True
                    w.fired("no-inputs-directory")
                except OSError:
                    pass
            dirs_before = w.fs.dirs()
            out, before, after, changed, wopens = genops.run_gen(w, op, common.env_cfg(op))
            new_dirs = sorted(w.fs.dirs() - dirs_before)
            if moved:
                # (both snapshots were taken with the folder moved away, so `changed` is consistent)
                import shutil as _sh
                _sh.rmtree(_os.path.join(w.root, "inputs"), ignore_errors=True)
                _os.rename(_os.path.join(w.root, "inputs_elsewhere"), _os.path.join(w.root, "inputs"))
            if new_dirs:
                changed = sorted(set(changed) | {d_ + "/" for d_ in new_dirs})
            events.append([i_op, "gen_cli_bad", op.get("bad"), out["status"], out.get("etype"), changed, wopens])
            what = "`roberta_generator.py %s` (%s out of range)" % (" ".join(ops.gen_argv(p)[1:]), op.get("bad"))
            w.fired("out-of-range-" + str(op.get("bad")))
            opened_w = sorted({e[2] for e in out["fs_events"] if genops.is_write_open(e)})
            if opened_w or changed:
                v = viol("I15.3", i_op, "%s touched the disk before refusing: opened %s for writing, changed %s; outcome %s" % (
                    what, opened_w, changed, genops.show(out)), "wrote-before-refusal", bad=op.get("bad"))
            elif out["status"] == "ok":
                v = viol("I15.3", i_op, "%s was accepted" % what, "accepted-out-of-range", bad=op.get("bad"))
            elif not (out["status"] == "exc" and out["etype"] == "ValueError"):
                v = viol("I15.3", i_op, "%s was refused with %s, not ValueError" % (what, genops.show(out)),
                         "refused-with-other-error", bad=op.get("bad"), etype=out.get("etype") or out["status"])
            else:
                nontrivial = nontrivial or bool(before)
                w.probe("refusals-verified")
        if v is not None:
            if ctx.known_match(ID, v) is not None:
                res["known"].append(v)
                continue
            res["violation"] = v
            break
    res["agg"] = agg
    res["nontrivial"] = nontrivial
    res["signature"] = h(",".join(kinds) + "#" + h(canon([o.get("params") for o in spec["ops"]])))
    return res


def _pp(p):
    return "seed=%r, length=%r, width=%r, prob_loose_tile=%r, max_reward=%r, force_down=%r" % (
        p["seed"], p["length"], p["width"], p["lt"], p["max_reward"], p["force_down"])


def _stats(recs):
    """Pooled loose-tile statistic over boards with pairwise different seeds."""
    by_seed = {}
    for r in recs:
        for seed, lt, n, loose in (r.get("agg") or []):
            by_seed.setdefault(seed, (lt, n, loose))
    classes = {"low(<0.2)": [0.0, 0.0, 0, 0], "mid": [0.0, 0.0, 0, 0], "high(>0.8)": [0.0, 0.0, 0, 0]}
    per_lt = {}
    for seed, (lt, n, loose) in by_seed.items():
        per_lt[lt] = per_lt.get(lt, 0) + n
    for seed, (lt, n, loose) in by_seed.items():
        c = "low(<0.2)" if lt < 0.2 else "high(>0.8)" if lt > 0.8 else "mid"
        if per_lt[lt] >= 100000:
            # enough independent tiles were requested with exactly this probability: a class of its own
            c = "p=%r" % lt
            classes.setdefault(c, [0.0, 0.0, 0, 0])
        a = classes[c]
        a[0] += n * lt
        a[1] += n * lt * (1 - lt)
        a[2] += loose
        a[3] += n
    out = {}
    for c, (mean, var, loose, n) in classes.items():
        z = (loose - mean) / math.sqrt(var) if var > 0 else 0.0
        out[c] = {"tiles": n, "loose": loose, "expected": round(mean, 2), "z": round(z, 3)}
    return out, len(by_seed)


def finalize(recs):
    st, nb = _stats(recs)
    for c, s in st.items():
        if s["tiles"] >= 2000 and abs(s["z"]) > 6.0:
            return {"inv": "I15.4", "msg": "loose-tile frequency in class %s: %d loose of %d tiles over independent boards, expected %.1f (z = %.2f, bound 6)" % (
                c, s["loose"], s["tiles"], s["expected"], s["z"]), "sig": {"inv": "I15.4", "class": "loose-frequency"}}
    return None


def evidence_extra(recs):
    st, nb = _stats(recs)
    return {"loose_tile_statistics": st, "independent_boards_pooled": nb}
