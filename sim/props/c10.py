"""C10 - solving leaves the game description intact and is repeatable."""
import copy

from .. import ops, pools, proc
from ..lit import enc, dec, canon, canon_e, h, short
from . import common
from .common import viol
from ..steps import Divergent, Inconclusive

ID = "C10"
RUNS = {"quick": 1600, "thorough": 12000}
REAL = common.REAL
SIMULATED = common.SIMULATED
ASSUMPTIONS = [
    "the oracle for 'identical results' is the same repository code run once, in a never-used forked process, on a private copy of the description (it decides repeatability and isolation, not numerical correctness)",
    "games whose pristine solve diverges or exceeds the sweep cap are discarded (C10 makes no termination claim)",
    "after an injected interrupt the client reloads the description; intactness at the interrupt instant is reported as a probe only (the property quantifies over sequences of solves, not crash points)",
]
RULE = ("run = 1-4 descriptions (paper/example files, generator boards, random well-formed, malformed, no-solution; "
        "sometimes two descriptions sharing one transition-list object) + 3-25 ops from {new, solve same object, "
        "solve fresh object, toggle pruning flag, check_game/count_transitions/init_states on a live object, batch via run_games, restart} under seeded log level / stack depth / "
        "PRNG pollution / clock / interrupt-at-step-k; non-trivial = some description is solved at least twice with a "
        "pruned solve before the last one; distinct = hash of (op kinds, description hashes, fault kinds fired)")


def n_fixed(tier):
    return 4


def fixed_specs(tier, ctx):
    """The design-session exemplar: every paper game solved pruned, then again."""
    pp = common.paper_pool(ctx)
    descs, opl = [], []
    for i, (name, e) in enumerate(pp[:12]):
        descs.append({"desc": e, "tag": name})
        opl.append({"op": "solve_fresh", "d": i, "prune": True})
        opl.append({"op": "solve_fresh", "d": i, "prune": True})
        opl.append({"op": "solve_fresh", "d": i, "prune": False})
    return [{"cfg": {"klass": "plain"}, "descs": descs, "ops": opl}, _quiet_spec(tier), _concurrent_spec(tier), _twins_spec(tier)]


def _twins_spec(tier):
    """Games of equal size and shape but different wiring (one transition rewired, rows permuted, one player
    handed over), solved back to back through short-lived copies: whatever is remembered by size, shape, address
    or a rounded key is consulted by the other twin."""
    import random as _r
    from .. import pools
    rng = _r.Random(11)
    descs, opl = [], []
    for i in range(10 if tier == "quick" else 60):
        base = pools.stopping_game(rng, 6, 11)
        twin, kind_ = pools.variant_game(rng, base, ("rewire", "permute", "players", "nudge", "rewire")[i % 5])
        descs += [{"desc": enc(base), "tag": "twin-base%d" % i}, {"desc": enc(twin), "tag": "twin-%s%d" % (kind_, i)}]
        a, b = 2 * i, 2 * i + 1
        opl += [{"op": "batch", "ds": [a, b]}, {"op": "batch", "ds": [b, a]}, {"op": "batch", "ds": [a]}, {"op": "batch", "ds": [b]},
                {"op": "solve_fresh", "d": a, "prune": True}, {"op": "solve_fresh", "d": b, "prune": True},
                {"op": "solve_fresh", "d": b, "prune": False}, {"op": "solve_fresh", "d": a, "prune": False}]
    return {"cfg": {"klass": "twins-back-to-back"}, "descs": descs, "ops": opl}


def _concurrent_spec(tier):
    """Pairs of processes calling run_games at the same time on games neither has seen before (same names,
    different games), each pair followed by an ordinary batch over both games: whatever the two left behind
    anywhere on the disk or in the home directory is consulted again."""
    import random as _r
    from .. import pools
    rng = _r.Random(10)
    n_pairs = 16 if tier == "quick" else 120
    descs = [{"desc": enc(pools.stopping_game(rng, 5, 9)), "tag": "pair-game%d" % i} for i in range(2 * n_pairs)]
    opl = []
    for i in range(n_pairs):
        opl.append({"op": "batch_pair", "a": [2 * i], "b": [2 * i + 1], "sched": 1000 + i, "p": (0.3, 0.5, 0.15)[i % 3]})
        opl.append({"op": "batch", "ds": [2 * i, 2 * i + 1]})
    return {"cfg": {"klass": "concurrent-batches"}, "descs": descs, "ops": opl}


def _quiet_spec(tier):
    """Long quiet stretches: probe games of ascending size are solved (both modes), then one tiny game is solved
    about T times in the same process (nothing else happens), then the probes again in the same ascending order -
    for T = 2^8 .. 2^16 (thorough: 2^5 .. 2^17 and some powers of ten).  With P probe solves per round the solves
    of the second round fall T-P/4 .. T+P/4 calls after the last solve of the first round, and each of them meets
    state indices no call has touched since then: generation stamps, wrapped counters, caches that evict or expire
    by count show on exactly such a call."""
    import random as _r
    from .. import pools
    rng = _r.Random(7)
    descs = [{"desc": enc({"rewards": [1, 0], "players": ["Player 1", "Probabilistic"],
                           "transition_list": [[("go", 1)], [(1, 1)]], "final_states": [1]}), "tag": "quiet-tiny"}]
    chain = {"rewards": [1, 1, 1, 1, 1, 0, 0], "players": ["Probabilistic"] * 7,
             "transition_list": [[(0.5, 1), (0.5, 6)], [(1, 2)], [(1, 3)], [(1, 4)], [(1, 5)], [(1, 5)], [(1, 6)]], "final_states": [5]}
    # (renumbered at random: which index a search meets early or late differs from game to game)
    probes = [chain] + [pools.permute_states(rng, pools.stopping_game(rng, n, n)) for n in (13, 19, 25, 31, 37, 43, 49)]
    probes.sort(key=lambda g: len(g["players"]))
    for i, g in enumerate(probes):
        descs.append({"desc": enc(g), "tag": "quiet-probe%d" % i})
    order = list(range(1, len(probes) + 1))
    P = 2 * len(probes)
    targets = [2 ** 8, 2 ** 10, 2 ** 12, 2 ** 15, 2 ** 16] if tier == "quick" else \
        [2 ** k for k in range(5, 18)] + [1000, 10000, 50000, 100000]
    opl = []
    for T in targets:
        opl.append({"op": "restart", "entropy": T})
        for rnd in range(2):
            # (second round: every solve of the ascending pruned series meets indices untouched since round one)
            for d in order:
                opl.append({"op": "solve_fresh", "d": d, "prune": True})
                if rnd == 0:
                    opl.append({"op": "solve_fresh", "d": d, "prune": False})
            if rnd == 0:
                opl.append({"op": "quiet", "d": 0, "prune": True, "times": max(1, T - P // 4 - 1)})
            else:
                for d in order:
                    opl.append({"op": "solve_fresh", "d": d, "prune": False})
    # ... and floods of *distinct* small games (caches that evict by count, rings of slots, tables that grow)
    for N in ((170, 680, 2700) if tier == "quick" else (90, 170, 340, 680, 1350, 2700, 5400, 10800, 21600)):
        opl.append({"op": "restart", "entropy": N})
        for d in order:
            opl.append({"op": "solve_fresh", "d": d, "prune": True})
            opl.append({"op": "solve_fresh", "d": d, "prune": False})
        opl.append({"op": "flood", "n": N, "seed": N})
        for d in order:
            opl.append({"op": "solve_fresh", "d": d, "prune": True})
            opl.append({"op": "solve_fresh", "d": d, "prune": False})
    return {"cfg": {"klass": "quiet-stretches"}, "descs": descs, "ops": opl}


def _gen_marathon(rng, ctx):
    """One long-lived process, a few small descriptions, hundreds of solves: anything that
    only shows on the N-th repetition or after accumulated work."""
    from .. import pools
    descs = []
    for i in range(3):
        g = pools.stopping_game(rng, 4, 7) if i else pools.tiny_game(rng)
        descs.append({"desc": enc(g), "tag": "marathon%d" % i})
    opl = [{"op": "new", "id": "h%d" % i, "d": i, "prune": bool(i % 2)} for i in range(3)]
    for _ in range(rng.randint(150, 400)):
        r = rng.random()
        if r < 0.5:
            opl.append({"op": "solve", "h": "h%d" % rng.randrange(3)})
            if rng.random() < 0.15:
                opl[-1]["scribble"] = True
        elif r < 0.85:
            opl.append({"op": "solve_fresh", "d": rng.randrange(3), "prune": rng.random() < 0.6})
            if rng.random() < 0.15:
                opl[-1]["scribble"] = True
        elif r < 0.95:
            opl.append({"op": "toggle", "h": "h%d" % rng.randrange(3)})
        else:
            opl.append({"op": "batch", "ds": rng.sample(range(3), rng.randint(1, 3))})
    return {"cfg": {"klass": "marathon", "fd_spare": 48}, "descs": descs, "ops": opl}


def gen(rng, tier, ctx):
    if rng.random() < 0.012:
        return _gen_marathon(rng, ctx)
    klass = rng.choices(["plain", "faulty", "interrupt"], [0.4, 0.35, 0.25])[0]
    nd = rng.choice([1, 1, 2, 2, 3, 4])
    descs = []
    for i in range(nd):
        tag, e = common.pick_desc(rng, ctx, allow_bad=(klass != "plain" or rng.random() < 0.3), big_ok=True)
        d = {"desc": e, "tag": tag}
        descs.append(d)
    # a variant that shares the transition-list object of another description
    bigs = [i for i in range(nd - 1) if isinstance(dec(descs[i]["desc"]).get("players"), list)
            and len(dec(descs[i]["desc"])["players"]) >= 150] if nd >= 2 else []
    twin_pair = None
    if nd >= 2 and (rng.random() < 0.35 or (bigs and rng.random() < 0.8)):
        src = rng.choice(bigs) if bigs else rng.randrange(nd - 1)
        twin_pair = (src, nd - 1)
        base = dec(descs[src]["desc"])
        if isinstance(base.get("rewards"), list) and base["rewards"]:
            # a near-twin: same size and shape, one player / reward / target / probability digit different
            big = len(base.get("players", [])) >= 150
            var, _kind = pools.variant_game(rng, base, "players" if (big and rng.random() < 0.6) else None)
            descs[nd - 1] = {"desc": enc(var), "tag": descs[src]["tag"] + "+variant", "share_tl_with": src}
            if rng.random() < 0.5:
                # also share the players / final_states list objects (as `dict(g1, rewards=...)` does)
                descs[nd - 1]["share_fields"] = rng.sample(["players", "final_states"], rng.randint(1, 2))
    for d_ in descs:
        if rng.random() < 0.12:
            # one inner list object serving two states (`row = [...]; [row, row]`, `[[...]] * 2` in an input file)
            g_ = dec(d_["desc"])
            try:
                rows = [i for i, pl in enumerate(g_["players"]) if pl == "Probabilistic" and len(g_["transition_list"][i]) >= 2]
                if len(rows) >= 2:
                    i_, j_ = rng.sample(rows, 2)
                    g_["transition_list"][j_] = list(g_["transition_list"][i_])
                    d_["desc"] = enc(g_)
                    d_["alias_equal_rows"] = True
                    d_["tag"] = d_["tag"] + "+aliased-rows"
            except Exception:
                pass
    for d_ in descs:
        if rng.random() < 0.12:
            # the same description in other containers the solver accepts as well (a set of final states,
            # tuples of rewards / players / rows)
            g_ = dec(d_["desc"])
            try:
                fld = rng.choice(["final_states", "final_states", "rewards", "players", "transition_list"])
                if isinstance(g_.get(fld), list):
                    g_[fld] = set(g_[fld]) if (fld == "final_states" and rng.random() < 0.6) else tuple(g_[fld])
                    d_["desc"] = enc(g_)
                    d_["tag"] = d_["tag"] + "+%s-as-%s" % (fld, type(g_[fld]).__name__)
            except Exception:
                pass
    n_ops = rng.randint(3, 25 if tier == "thorough" else 14)
    opl = []
    handles = []
    hid = 0
    for _ in range(n_ops):
        r = rng.random()
        env = common.gen_env(rng, faulty=(klass != "plain"))
        env.pop("clock", None) if rng.random() < 0.5 else None
        if r < 0.2 or not handles:
            hid += 1
            op = {"op": "new", "id": "h%d" % hid, "d": rng.randrange(nd), "prune": rng.random() < 0.65}
            handles.append(op["id"])
        elif r < 0.55:
            op = {"op": "solve", "h": rng.choice(handles)}
        elif r < 0.72:
            op = {"op": "solve_fresh", "d": rng.randrange(nd), "prune": rng.random() < 0.65}
        elif r < 0.76:
            op = {"op": "toggle", "h": rng.choice(handles)}
        elif r < 0.775 and handles:
            # two threads of the caller solve through the same object at the same time
            op = {"op": "solve_threads", "h": rng.choice(handles), "n": rng.choice([2, 2, 3])}
        elif r < 0.81:
            # the caller edits its own description in place (it is the caller's data); objects built from it
            # earlier and fresh ones now hold the same - new - description
            op = {"op": "edit", "d": rng.randrange(nd), "seed": rng.randint(0, 2 ** 32)}
        elif r < 0.84:
            op = {"op": "aux", "h": rng.choice(handles), "what": rng.choice(["check_game", "count_transitions", "init_states"])}
        elif r < 0.93:
            k = rng.randint(1, nd)
            op = {"op": "batch", "ds": rng.sample(range(nd), k)}
        else:
            op = {"op": "restart", "entropy": rng.randint(0, 2 ** 32)}
            handles = []
        if env and op["op"] in ("solve", "solve_fresh", "batch"):
            op["env"] = env
        if klass == "interrupt" and op["op"] in ("solve", "solve_fresh") and rng.random() < 0.45:
            op["interrupt"] = {"frac": rng.random()}
            r2 = rng.random()
            if r2 < 0.4:
                op["kill"] = {"keep": rng.random()}
            elif r2 < 0.6:
                op["interrupt"]["exc"] = "MemoryError"
        if op["op"] in ("solve", "solve_fresh", "batch") and rng.random() < 0.25:
            op["scribble"] = True       # the caller edits the strategies / vectors it was handed
        opl.append(op)
        if op["op"] == "edit" and handles:
            # ... and goes on using the objects it built before (and new ones)
            for h_ in rng.sample(handles, min(len(handles), 2)):
                opl.append({"op": "solve", "h": h_})
            opl.append({"op": "solve_fresh", "d": op["d"], "prune": rng.random() < 0.65})
        if nd >= 2 and op["op"] == "batch" and rng.random() < 0.25:
            # ... and two processes doing so at the same time, followed by an ordinary batch over the same games
            da = rng.sample(range(nd), rng.randint(1, nd))
            db = rng.sample(range(nd), rng.randint(1, nd))
            opl.append({"op": "batch_pair", "a": da, "b": db, "sched": rng.randint(0, 2 ** 32), "p": rng.choice([0.1, 0.3, 0.6])})
            opl.append({"op": "batch", "ds": sorted(set(da + db))})
    if twin_pair is not None and rng.random() < 0.7:
        # the sibling and its near-twin solved back to back, in one process, same mode
        pr = rng.random() < 0.6
        pair = [{"op": "solve_fresh", "d": twin_pair[0], "prune": pr}, {"op": "solve_fresh", "d": twin_pair[1], "prune": pr}]
        if rng.random() < 0.5:
            pair.reverse()
        at = rng.randrange(len(opl) + 1)
        opl[at:at] = pair
    if nd >= 2 and rng.random() < 0.1:
        # two processes start with run_games at the same time, before anything else has touched these games
        da = rng.sample(range(nd), rng.randint(1, nd - 1))
        db = [d for d in range(nd) if d not in da][: len(da)] or [0]
        opl[0:0] = [{"op": "batch_pair", "a": da, "b": db, "sched": rng.randint(0, 2 ** 32), "p": rng.choice([0.15, 0.3, 0.5])},
                    {"op": "batch", "ds": sorted(set(da + db))}]
    return {"cfg": {"klass": klass}, "descs": descs, "ops": opl}


def readable(spec):
    return {"descriptions": ["%d: %s = %r" % (i, d.get("tag"), dec(d["desc"])) for i, d in enumerate(spec["descs"])],
            "ops": [repr(o) for o in spec["ops"]]}


def _drop_desc(spec, i):
    """Remove description i (ops on it vanish, indices above shift down)."""
    def mp(k):
        return k - 1 if k > i else k
    ops_ = []
    for op in spec["ops"]:
        if op.get("d") == i:
            continue
        op = dict(op)
        if "d" in op:
            op["d"] = mp(op["d"])
        if "ds" in op:
            op["ds"] = [mp(k) for k in op["ds"] if k != i]
            if not op["ds"]:
                continue
        ops_.append(op)
    ds = []
    for k, d in enumerate(spec["descs"]):
        if k == i:
            continue
        d = dict(d)
        sw = d.get("share_tl_with")
        if sw is not None:
            if sw == i:
                d.pop("share_tl_with")
            else:
                d["share_tl_with"] = mp(sw)
        ds.append(d)
    return dict(spec, descs=ds, ops=ops_)


def simplify(spec):
    if len(spec["descs"]) > 1:
        for i in range(len(spec["descs"])):
            yield _drop_desc(spec, i)
    yield from common.simplify_env(spec)
    ds = spec["descs"]
    # drop a description nobody needs (ops on it are skipped)
    used = set()
    for op in spec["ops"]:
        if "d" in op:
            used.add(op["d"])
        for k in op.get("ds", []):
            used.add(k)
    for i in range(len(ds)):
        if ds[i].get("share_tl_with") is not None:
            nd = list(ds)
            nd[i] = {k: v for k, v in ds[i].items() if k != "share_tl_with"}
            yield dict(spec, descs=nd)
    for i, op in enumerate(spec["ops"]):
        if op["op"] == "batch" and len(op["ds"]) > 1:
            for j in range(len(op["ds"])):
                yield dict(spec, ops=spec["ops"][:i] + [dict(op, ds=op["ds"][:j] + op["ds"][j + 1:])] + spec["ops"][i + 1:])


def _materialise(spec):
    live = []
    for d in spec["descs"]:
        obj = dec(d["desc"])
        sw = d.get("share_tl_with")
        if sw is not None and sw < len(live) and isinstance(obj, dict) and "transition_list" in live[sw]:
            if canon(obj.get("transition_list")) == canon(live[sw]["transition_list"]):
                obj["transition_list"] = live[sw]["transition_list"]
            for fld in d.get("share_fields", []):
                if canon(obj.get(fld)) == canon(live[sw].get(fld)):
                    obj[fld] = live[sw][fld]
        if d.get("alias_equal_rows") and isinstance(obj, dict) and isinstance(obj.get("transition_list"), list):
            tl = obj["transition_list"]
            for j in range(len(tl)):
                for i in range(j):
                    if isinstance(tl[i], list) and tl[i] is not tl[j] and canon(tl[i]) == canon(tl[j]):
                        tl[j] = tl[i]
                        break
        live.append(obj)
    return live


def execute(spec, w, ctx):
    F = ops.FIELDS
    live = _materialise(spec)
    snaps = [common.fields_canon(d, F) for d in live]
    snap_e = [enc({k: d.get(k) for k in F}) for d in live]
    handles = {}
    alts = {}           # handle id -> earlier versions of its description (before in-place edits by the caller)
    events, states = [], []
    discards, solved = {}, {}
    res = {"events": events, "states": states, "discards": discards, "violation": None}
    kinds = []
    nontrivial = False

    def ref(d, prune, fine=False):
        return common.ref_solve(ctx, snap_e[d], prune, fine)

    def usable(r):
        return r["status"] in ("ok", "exc")

    def check_intact(i_op):
        for k, d in enumerate(live):
            now = common.fields_canon(d, F)
            if now != snaps[k]:
                return viol("I10.1", i_op,
                            "description %d (%s) changed after op %d %s: was %s now %s" % (
                                k, spec["descs"][k].get("tag"), i_op, spec["ops"][i_op]["op"],
                                _difftext(snaps[k], now, d), ""),
                            "description-mutated", desc_tag=spec["descs"][k].get("tag"))
        return None

    def note_solve(d, prune):
        nonlocal nontrivial
        lst = solved.setdefault(d, [])
        if any(lst):
            nontrivial = True
        lst.append(bool(prune))
        # descriptions sharing a transition list count as the same object
        sw = spec["descs"][d].get("share_tl_with")
        if sw is not None and any(solved.get(sw, [])):
            nontrivial = True

    def do_solve(i_op, op, d, prune, handle):
        """One solve through an existing handle or a fresh object; returns violation or None."""
        r = ref(d, prune)
        if not usable(r):
            discards["ref-" + r["status"]] = discards.get("ref-" + r["status"], 0) + 1
            events.append([i_op, op["op"], "skipped:ref-" + r["status"]])
            return None
        cfg = common.env_cfg(op)
        cfg["step_cap"] = 20 * (r["steps"] or 0) + 20000
        if cfg.get("log") == "d" and (r["steps"] or 0) > 30000:
            cfg["log"] = "i"
        intr = op.get("interrupt")
        if intr and (r["steps"] or 0) > 120000:
            intr = None
            discards["interrupt-skipped-long-solve"] = discards.get("interrupt-skipped-long-solve", 0) + 1
        if intr:
            rf = ref(d, prune, fine=True)
            if usable(rf):
                cfg["interrupt"] = {"frac": intr["frac"], "total": rf["steps"], "exc": intr.get("exc")}
                cfg["step_cap"] = 20 * rf["steps"] + 20000
                if op.get("kill"):
                    cfg["kill"] = op["kill"]
        if handle is None:
            out = ops.solve(w, live[d], prune, cfg)
        else:
            out = ops.solve_handle(w, handle, cfg)
        note_solve(d, prune)
        s = ops.summarize(out)
        events.append([i_op, op["op"], d, bool(prune), s["status"], s.get("steps"),
                       h(canon_e(s.get("value"))) if s["status"] == "ok" else s.get("emsg") or s.get("site")])
        states.append(h(snaps[d] + str(prune) + s["status"] + canon_e(s.get("value", s.get("emsg")))))
        if s["status"] == "interrupt" or (out.get("injected") and s["status"] != "ok"):
            intact = common.fields_canon(live[d], F) == snaps[d]
            w.probe("caller-data-intact-at-interrupt" if intact else "caller-data-MUTATED-at-interrupt")
            w.probe("interrupt-in:" + str(out.get("site", "?")).split(":")[0])
            if handle is not None and not op.get("kill") and intact:
                # Ctrl-C caught by the session: would the *same object* still solve correctly?  Outside the
                # property's quantifier (crash points), so a probe, not an invariant.
                again = ops.summarize(ops.solve_handle(w, handle, {"step_cap": 20 * (r["steps"] or 0) + 20000}))
                w.probe("same-object-solve-after-interrupt-" + ("equals-reference" if ops.same_result(again, r) else "DIFFERS"))
            # the client reloads what the aborted call may have damaged
            _reload(d)
            return None
        if s["status"] in ("divergent", "inconclusive"):
            return viol("I10.2", i_op, "solve of description %d (%s, prune=%s) used more than 20x the steps of the "
                        "pristine reference (%s steps) and was stopped: %s" % (d, spec["descs"][d].get("tag"), prune,
                                                                             r["steps"], s.get("info")),
                        "steps-discrepancy")
        if not ops.same_result(s, r) and handle is not None and any(
                ops.same_result(s, common.ref_solve(ctx, old_e, prune)) for old_e in alts.get(op.get("h"), [])):
            # an object built before the caller edited its lists in place may answer for the description it was
            # built from (it copied) or for the current one (it shares the lists): both are "the same description"
            w.probe("old-object-answers-for-the-description-it-was-built-from")
            return None
        if not ops.same_result(s, r):
            return viol("I10.2", i_op,
                        "solve #%d of description %d (%s, prune=%s%s) differs from the pristine reference: got %s, "
                        "reference %s" % (len(solved[d]), d, spec["descs"][d].get("tag"), prune,
                                          ", same object" if handle is not None else ", fresh object",
                                          _show(s), _show(r)),
                        "result-differs" if s["status"] == r["status"] else "outcome-kind-differs")
        if op.get("scribble") and out["status"] == "ok":
            # the strategies / vectors it got are the caller's now; it edits them (never its own description)
            w.fired("caller-edits-returned-value", ops.scribble(out["value"], ops.container_ids(live)))
        return None

    def do_solve_threads(i_op, op, obj, d):
        """n threads of the caller call solve() on the same object at the same time (scheduled by the simulator's
        thread seam: one runs at a time, pre-empted at seeded lines of the solver)."""
        import threading
        prune = bool(getattr(obj, "prune_states", True))
        r = ref(d, prune)
        if not usable(r) or (r["steps"] or 0) > 60000:
            return None
        n = int(op.get("n", 2))
        results = [None] * n

        def worker(k):
            try:
                results[k] = {"status": "ok", "value": enc(obj.solve())}
            except ValueError as e:
                results[k] = {"status": "exc", "etype": "ValueError", "emsg": str(e)}
            except Exception as e:  # noqa
                results[k] = {"status": "exc", "etype": type(e).__name__, "emsg": str(e)}

        def thunk():
            ts = [threading.Thread(target=worker, args=(k,), name="caller-%d" % k) for k in range(n)]
            for t in ts:
                t.start()
            for t in ts:
                t.join()
            return None
        out = w.run_op(thunk, {"step_cap": 60 * n * (r["steps"] or 0) + 400000, "fine": True})
        for _ in range(n):
            note_solve(d, prune)
        w.fired("caller-threads-solving-one-object", n)
        events.append([i_op, "solve_threads", d, prune, n, out["status"], [x and x.get("status") for x in results]])
        if out["status"] != "ok":
            return viol("I10.2", i_op, "%d caller threads solving description %d through one object: did not finish: %s %s" % (
                n, d, out["status"], out.get("etype") or out.get("info") or ""), "outcome-kind-differs")
        for k, x in enumerate(results):
            if x is not None and not ops.same_result(x, r) and any(
                    ops.same_result(x, common.ref_solve(ctx, old_e, prune)) for old_e in alts.get(op.get("h"), [])):
                continue        # (an object built before an in-place edit may answer for the description it was built from)
            if x is None or not ops.same_result(x, r):
                return viol("I10.2", i_op, "%d caller threads solving description %d (%s, prune=%s) through one object at the same time: "
                            "thread %d got %s, the pristine reference is %s" % (n, d, spec["descs"][d].get("tag"), prune, k,
                                                                              _show(x) if x else None, _show(r)), "result-differs")
        return None

    def do_quiet(i_op, op):
        """The same small description solved `times` times, back to back, in this process."""
        d, prune, times = op["d"], bool(op["prune"]), int(op["times"])
        if d >= len(live):
            return None
        r = ref(d, prune)
        if r["status"] != "ok":
            return None
        desc = live[d]

        def thunk():
            tad = proc.mod("tad")
            first = None
            for k in range(times):
                if k % 64 == 0 and not w.quiet_budget_left():
                    break
                cur = canon(tad.StochasticGame(**ops.game_kwargs(desc, prune)).solve())
                if first is None:
                    first = cur
                elif cur != first:
                    return (k, first, cur)
            return (None, first, None)
        out = w.run_op(thunk, {"step_cap": 200 * times * max(1, r["steps"] or 1) + 100000})
        note_solve(d, prune)
        w.fired("quiet-stretch-solves", times)
        events.append([i_op, "quiet", d, prune, times, out["status"]])
        if out["status"] != "ok":
            return viol("I10.2", i_op, "%d back-to-back solves of description %d did not finish: %s %s" % (
                times, d, out["status"], out.get("etype") or out.get("info")), "outcome-kind-differs")
        k, first, cur = out["value"]
        if k is not None:
            return viol("I10.2", i_op, "solve #%d of description %d (%s) in a row differs from the first one: %s vs %s" % (
                k + 1, d, spec["descs"][d].get("tag"), short(cur, 300), short(first, 300)), "result-differs")
        if first is not None and first != canon_e(r["value"]):
            return viol("I10.2", i_op, "back-to-back solves of description %d differ from the pristine reference" % d, "result-differs")
        return None

    def _reload(d):
        fresh = dec(snap_e[d])
        sharers = [k for k in range(len(live)) if live[k].get("transition_list") is live[d].get("transition_list")]
        for k in sharers:
            f2 = dec(snap_e[k])
            f2["transition_list"] = fresh["transition_list"] if k != d else f2["transition_list"]
            if k == d:
                fresh = f2
            live[k] = f2
        for k in sharers:
            live[k]["transition_list"] = live[d]["transition_list"] if canon(live[k]["transition_list"]) == canon(live[d]["transition_list"]) else live[k]["transition_list"]
        for hid in [x for x, (obj, dd) in handles.items() if dd in sharers]:
            del handles[hid]

    w.restart(spec.get("cfg", {}).get("entropy", 0))
    for i_op, op in enumerate(spec["ops"]):
        kind = op["op"]
        kinds.append(kind)
        v = None
        if kind == "new":
            d = op["d"]
            if d >= len(live):
                continue
            try:
                handles[op["id"]] = (ops.new_handle(w, live[d], op["prune"]), d)
                events.append([i_op, "new", d, op["prune"]])
            except Exception as e:  # construction does not validate; anything here is odd but not C10
                events.append([i_op, "new", d, "raised " + type(e).__name__])
        elif kind == "solve":
            if op["h"] not in handles:
                continue
            obj, d = handles[op["h"]]
            v = do_solve(i_op, op, d, bool(getattr(obj, "prune_states", True)), obj)
        elif kind == "solve_fresh":
            if op["d"] >= len(live):
                continue
            v = do_solve(i_op, op, op["d"], op["prune"], None)
        elif kind == "toggle":
            if op["h"] not in handles:
                continue
            obj, d = handles[op["h"]]
            try:
                obj.prune_states = not obj.prune_states
                events.append([i_op, "toggle", op["h"], obj.prune_states])
            except Exception:
                pass
        elif kind == "aux":
            if op["h"] not in handles:
                continue
            obj, d = handles[op["h"]]
            out = w.run_op(lambda: getattr(obj, op["what"])(), {"step_cap": 10 ** 7})
            events.append([i_op, "aux", op["what"], out["status"], out.get("etype")])
        elif kind == "solve_threads":
            if op["h"] not in handles:
                continue
            obj, d = handles[op["h"]]
            v = do_solve_threads(i_op, op, obj, d)
        elif kind == "quiet":
            v = do_quiet(i_op, op)
        elif kind == "edit":
            if op["d"] < len(live):
                for hid_, (_obj, dd_) in handles.items():
                    alts.setdefault(hid_, []).append(snap_e[dd_])
                what = _edit_in_place(live[op["d"]], op.get("seed", 0))
                events.append([i_op, "edit", op["d"], what])
                if what:
                    w.fired("caller-edits-its-description-in-place")
                # the edited description (and every description sharing objects with it) is the baseline from now on
                for k_ in range(len(live)):
                    snaps[k_] = common.fields_canon(live[k_], F)
                    snap_e[k_] = enc({f_: live[k_].get(f_) for f_ in F})
        elif kind == "flood":
            from .. import pools as _pools
            import random as _r
            n_ = int(op["n"])
            seed_ = int(op.get("seed", 0))

            def flood():
                tad = proc.mod("tad")
                rg = _r.Random(seed_)
                done = 0
                for k_ in range(n_):
                    if k_ % 64 == 0 and not w.quiet_budget_left():
                        break
                    g_ = _pools.stopping_game(rg, 4, 9) if k_ % 3 else _pools.rand_game(rg, 3, 9)
                    try:
                        tad.StochasticGame(**ops.game_kwargs(g_, rg.random() < 0.5)).solve()
                    except ValueError:
                        pass
                    except (Divergent, Inconclusive):
                        w.stepclock.sweep_cap = 3000        # (a filler game that does not converge: next one)
                    done += 1
                return done
            out = w.run_op(flood, {"step_cap": 10 ** 9, "sweep_cap": 3000})
            events.append([i_op, "flood", n_, out["status"], out.get("value")])
            if out["status"] == "ok":
                w.fired("distinct-games-solved-in-one-process", out["value"])
        elif kind == "restart":
            w.restart(op.get("entropy", 0))
            handles.clear()
            events.append([i_op, "restart"])
        elif kind == "batch":
            v = _batch(i_op, op, spec, w, ctx, live, snap_e, ref, usable, events, states, discards, note_solve)
        elif kind == "batch_pair":
            v = _batch_pair(i_op, op, spec, w, live, ref, events, states, discards, note_solve)
        if v is None:
            v = check_intact(i_op)
        if v is not None:
            res["violation"] = v
            break
    res["nontrivial"] = nontrivial
    res["signature"] = h(",".join(kinds) + "|" + ",".join(h(s) for s in snaps) + "|" + ",".join(sorted(w.fault_counts)))
    return res


def _batch(i_op, op, spec, w, ctx, live, snap_e, ref, usable, events, states, discards, note_solve):
    ds = [d for d in op["ds"] if d < len(live)]
    keep = []
    for d in ds:
        rp, ru = ref(d, True), ref(d, False)
        okp = rp["status"] == "ok" or (rp["status"] == "exc" and rp["etype"] == "ValueError")
        oku = ru["status"] == "ok" or (ru["status"] == "exc" and ru["etype"] == "ValueError")
        if okp and oku and not (rp["status"] == "ok" and ru["status"] != "ok"):
            keep.append(d)
        else:
            discards["batch-ref-unusable"] = discards.get("batch-ref-unusable", 0) + 1
    if not keep:
        return None
    games = {"g%d" % d: live[d] for d in keep}
    cfg = common.env_cfg(op)
    if cfg.get("log") == "d":
        cfg["log"] = "i"
    cfg["step_cap"] = 20 * sum((ref(d, True)["steps"] or 0) + (ref(d, False)["steps"] or 0) for d in keep) + 50000
    out = ops.run_games(w, games, cfg)
    for d in keep:
        note_solve(d, True)
        note_solve(d, False)
    s = ops.summarize(out)
    events.append([i_op, "batch", keep, s["status"], s.get("steps")])
    if out["status"] != "ok":
        return viol("I10.2", i_op, "run_games over descriptions %s did not return: %s" % (keep, _show(s)), "batch-failed")
    val = out["value"]
    for d in keep:
        for prune, name in ((True, "g%d" % d), (False, "g%d_no_prune" % d)):
            r = ref(d, prune)
            ent = val.get(name) if isinstance(val, dict) else None
            if ent is None:
                return viol("I10.2", i_op, "run_games result has no entry %r" % name, "batch-entry-missing")
            if r["status"] != "ok" or ref(d, True)["status"] != "ok":
                continue    # failed pruned solve: the unpruned one is not run at all (C12's business)
            want = dec(r["value"])
            got = (ent.get("final_strategies"), ent.get("reachability_strategies"), ent.get("rewards"),
                   ent.get("probabilities"), ent.get("n_iterations_reach"), ent.get("n_iterations_rew"),
                   ent.get("prob_min_rew"), ent.get("rew_min_reach"))
            states.append(h(canon(got)))
            if canon(got) != canon(want):
                return viol("I10.2", i_op, "batch entry %r for description %d (%s) differs from solving it alone: got %s, "
                            "reference %s" % (name, d, spec["descs"][d].get("tag"), short(got, 400), short(want, 400)),
                            "result-differs")
    if op.get("scribble"):
        w.fired("caller-edits-returned-value", ops.scribble(val, ops.container_ids(live)))
    return None


def _batch_pair(i_op, op, spec, w, live, ref, events, states, discards, note_solve):
    """Two processes call run_games at the same time (same folder, same home directory), each on its own
    descriptions; the games are named by position, so both batches use the same names for different games."""
    sides = []
    for ds in (op["a"], op["b"]):
        keep = []
        for d in ds:
            if d >= len(live):
                continue
            rp, ru = ref(d, True), ref(d, False)
            if rp["status"] == "ok" and ru["status"] == "ok":
                keep.append(d)
            else:
                discards["batch-ref-unusable"] = discards.get("batch-ref-unusable", 0) + 1
        if not keep:
            return None
        sides.append(keep)
    cfg = {"step_cap": 20 * sum((ref(d, True)["steps"] or 0) + (ref(d, False)["steps"] or 0) for k_ in sides for d in k_) + 100000}
    games = [{"g%d" % j: live[d] for j, d in enumerate(keep)} for keep in sides]

    def summ(out_):
        s_ = ops.brief(out_)
        s_["value"] = enc(out_["value"]) if out_["status"] == "ok" else None
        return s_
    out_a, res_b = ops.concurrently(w, int(op.get("sched", 0)), float(op.get("p", 0.3)),
                                    lambda: ops.run_games(w, games[0], dict(cfg)), lambda: ops.run_games(w, games[1], dict(cfg)), summ)
    events.append([i_op, "batch_pair", sides, out_a["status"], res_b["status"], res_b.get("trace")])
    vals = [out_a.get("value") if out_a["status"] == "ok" else None,
            dec(res_b["value"]) if res_b.get("value") is not None else None]
    for keep, out_, val in zip(sides, (out_a, res_b), vals):
        if out_["status"] != "ok" or not isinstance(val, dict):
            return viol("I10.2", i_op, "run_games over descriptions %s, called while another process was calling it too, did not return: %s %s" % (
                keep, out_["status"], out_.get("etype") or ""), "batch-failed")
        for j, d in enumerate(keep):
            note_solve(d, True)
            for prune, name in ((True, "g%d" % j), (False, "g%d_no_prune" % j)):
                ent = val.get(name)
                if ent is None:
                    return viol("I10.2", i_op, "run_games result has no entry %r" % name, "batch-entry-missing")
                want = dec(ref(d, prune)["value"])
                got = (ent.get("final_strategies"), ent.get("reachability_strategies"), ent.get("rewards"),
                       ent.get("probabilities"), ent.get("n_iterations_reach"), ent.get("n_iterations_rew"),
                       ent.get("prob_min_rew"), ent.get("rew_min_reach"))
                states.append(h(canon(got)))
                if canon(got) != canon(want):
                    return viol("I10.2", i_op, "two processes calling run_games at the same time: entry %r for description %d (%s) differs from "
                                "solving it alone: got %s, reference %s" % (name, d, spec["descs"][d].get("tag"), short(got, 400), short(want, 400)),
                                "result-differs")
    return None


def _edit_in_place(g, seed):
    """One small well-formed change made *in place* to the caller's own lists; returns a description of it."""
    import random as _r
    rng = _r.Random(seed)
    try:
        tl, n = g["transition_list"], len(g["players"])
        kind = rng.choice(["rewire", "rewire", "reward", "reverse"])
        if kind == "rewire":
            cands = [(i, j) for i in range(n) for j in range(len(tl[i])) if isinstance(tl[i][j], tuple) and isinstance(tl[i][j][1], int)]
            rng.shuffle(cands)
            for i, j in cands[:10]:
                a, t = tl[i][j]
                t2 = rng.randrange(n)
                if t2 != t:
                    tl[i][j] = (a, t2)
                    return "transition_list[%d][%d] = %r" % (i, j, (a, t2))
        if kind == "reverse":
            rows = [i for i in range(n) if len(tl[i]) >= 2]
            if rows:
                i = rng.choice(rows)
                tl[i].reverse()
                return "transition_list[%d].reverse()" % i
        k = rng.randrange(len(g["rewards"]))
        if isinstance(g["rewards"][k], (int, float)) and not isinstance(g["rewards"][k], bool):
            g["rewards"][k] = g["rewards"][k] + 1
            return "rewards[%d] += 1" % k
    except Exception:
        pass
    return None


def _show(s):
    if s["status"] == "ok":
        return "result " + short(dec(s["value"]), 500)
    if s["status"] == "exc":
        return "%s(%r)" % (s["etype"], s["emsg"])
    return "%s %s" % (s["status"], s.get("info") or s.get("site") or s.get("code"))


def _difftext(a, b, d):
    import json
    try:
        A, B = dec(json.loads(a)), dec(json.loads(b))
        for k in A:
            if canon(A[k]) != canon(B.get(k)):
                if isinstance(A[k], list) and isinstance(B.get(k), list) and len(A[k]) == len(B[k]):
                    for i, (x, y) in enumerate(zip(A[k], B[k])):
                        if canon(x) != canon(y):
                            return "%s[%d]: %r -> %r" % (k, i, x, y)
                return "%s: %s -> %s" % (k, short(A[k], 200), short(B.get(k), 200))
    except Exception:
        pass
    return "(contents differ)"
