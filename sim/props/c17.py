"""C17 - generated file names identify the parameters that produced them."""
from .. import ops, pools
from ..lit import enc, dec, canon, canon_e, h, short
from . import common, genops
from .common import viol

ID = "C17"
RUNS = {"quick": 1500, "thorough": 60000}
REAL = common.REAL
SIMULATED = common.SIMULATED
ASSUMPTIONS = [
    "probabilities are whole percentages k/100 (the float nearest to k/100, as argparse's float() yields for the text a user types), k in 1..99",
    "the name is read order-independently: tokens between underscores with prefixes w,l,r,rb,lb,tb,lt, the first bare integer as seed, 'force_down' anywhere; zero padding is tolerated",
    "the collision invariant (no path written by two different parameter sets on one disk) does not depend on the name format at all",
]
RULE = ("run = 6-40 generator invocations (CLI after restart; manual entry point) on one simulated disk with whole-percent "
        "probabilities, biased to neighbouring percentages and to repeated sizes/seeds so that names can collide, some under INFO/DEBUG logging, deep stacks, injected OSErrors, and from one long-lived driver process; fixed runs sweep "
        "k = 1..99 exhaustively for each of the four probability fields; after each: the created path states every parameter, and "
        "no path has been written by two different parameter sets (a silently lost file); non-trivial = >= 2 different parameter "
        "sets differing in one field only; distinct = hash of the parameter-set sequence")


def n_fixed(tier):
    return 8


_LEGACY = None


def legacy_index():
    """Files written by an earlier version of the tool (static artefacts under /verif/legacy/generator)."""
    global _LEGACY
    if _LEGACY is None:
        import json
        import os
        d = os.path.join(os.path.dirname(os.path.dirname(os.path.dirname(os.path.abspath(__file__)))), "legacy", "generator")
        try:
            idx = json.load(open(os.path.join(d, "index.json")))["files"]
            _LEGACY = {fn: (prm, open(os.path.join(d, fn), "rb").read()) for fn, prm in sorted(idx.items())}
        except (OSError, ValueError, KeyError):
            _LEGACY = {}
    return _LEGACY


def _legacy_spec():
    """The user's inputs/ folder already holds files an earlier version wrote, among them the whole-percent
    neighbours k-1 of the once-truncated k = 29, 57, 58; then those k are generated."""
    leg = legacy_index()
    keep = [fn for fn, (prm, _d) in leg.items() if all(round(prm[k] * 100) not in (29, 58) for k in ("rb", "lb", "tb", "lt"))]
    opl = [{"op": "plant_legacy", "files": keep}]
    base = None
    for fn, (prm, _d) in leg.items():
        if all(prm[k] == 0.1 for k in ("rb", "lb", "tb")) and prm["lt"] == 0.3 and not prm["force_down"] and prm["seed"] == 5:
            base = prm
    if base is not None:
        for key in ("rb", "lb", "tb", "lt"):
            for k in (29, 57, 58, 27, 55):
                opl.append({"op": "gen_cli", "params": dict(base, **{key: k / 100}), "same_process": k == 57})
        opl.append({"op": "gen_cli", "params": dict(base)})
    return {"cfg": {"klass": "legacy-neighbours"}, "ops": opl}


def fixed_specs(tier, ctx):
    base = {"seed": 5, "width": 1, "length": 1, "max_reward": 3, "rb": 0.1, "lb": 0.1, "tb": 0.1, "lt": 0.3, "force_down": False}
    specs = []
    for key in ("rb", "lb", "tb", "lt"):
        specs.append({"cfg": {"klass": "sweep-" + key},
                      "ops": [{"op": "gen_cli", "params": dict(base, **{key: k / 100})} for k in range(1, 100)]})
    # manual entry point: sweep of the three fields it has
    b = {"moves": enc([[1, 3]]), "rewards": enc([[2, 0]]), "loose": enc([[0, 1]]), "rb": 0.1, "lb": 0.1, "tb": 0.1}
    opl = []
    for key in ("rb", "lb", "tb"):
        for k in range(1, 100):
            opl.append({"op": "gen_manual", "board": dict(b, **{key: k / 100})})
    specs.append({"cfg": {"klass": "sweep-manual"}, "ops": opl})
    # the same sweep inside a process whose other tenants changed the decimal context
    for mode in ("ROUND_DOWN", "ROUND_CEILING"):
        specs.append({"cfg": {"klass": "sweep-ambient-" + mode},
                      "ops": [{"op": "gen_cli", "params": dict(base, rb=k / 100, lt=((k * 7) % 99 + 1) / 100), "same_process": True,
                               "env": {"ambient": {"decimal_rounding": mode, "decimal_prec": 28}}} for k in range(1, 100)]})
    specs.append(_legacy_spec())
    return specs


def gen(rng, tier, ctx):
    base = pools.gen_params(rng, "tiny")
    for k in ("rb", "lb", "tb", "lt"):
        base[k] = pools.pct(rng)
    opl = []
    cur = dict(base)
    session = rng.random() < 0.3        # a driver script calling main() repeatedly in one process
    marathon = rng.random() < 0.012
    if marathon:
        session = True
        base.update(width=1, length=rng.randint(1, 2))
        cur = dict(base)
    leg = legacy_index()
    if leg and not marathon and rng.random() < 0.1:
        # the folder already holds files of an earlier version; the run works next to them
        names = sorted(leg)
        opl.append({"op": "plant_legacy", "files": rng.sample(names, rng.randint(3, len(names)))})
        base = dict(leg[rng.choice(names)][0])
        cur = dict(base)
    for _ in range(rng.randint(150, 400) if marathon else rng.randint(6, 40 if tier == "thorough" else 20)):
        r = rng.random()
        if marathon:
            r = 0.5 + r / 2         # generator invocations only, one process
        if r < 0.12:
            mv, rw, lo = pools.rand_board(rng, 3, 3)
            opl.append({"op": "gen_manual", "board": {"moves": enc(mv), "rewards": enc(rw), "loose": enc(lo),
                                                      "rb": rng.choice([cur["rb"], pools.pct(rng)]),
                                                      "lb": rng.choice([cur["lb"], pools.pct(rng)]),
                                                      "tb": rng.choice([cur["tb"], pools.pct(rng)])},
                        "entropy": rng.randint(0, 2 ** 32)})
            continue
        if r < 0.17:
            opl.append({"op": "restart", "entropy": rng.randint(0, 2 ** 32)})
            continue
        if rng.random() < 0.06:
            # a request the generator refuses (out of range, NaN): only history for the requests after it
            bad = dict(cur)
            bad[rng.choice(["rb", "lb", "tb", "lt"])] = rng.choice([float("nan"), 0.0, 1.0, -0.5, float("inf")])
            if rng.random() < 0.3:
                bad["width"] = rng.choice([0, -1])
            opl.append({"op": "gen_cli", "params": bad, "refused": True, "same_process": session or rng.random() < 0.5,
                        "entropy": rng.randint(0, 2 ** 32)})
        p = dict(cur)
        m = rng.random()
        key = rng.choice(["rb", "lb", "tb", "lt"])
        if m < 0.45:
            k = round(p[key] * 100) + rng.choice([-1, 1, 1, 2, -2])
            p[key] = min(99, max(1, k)) / 100
        elif m < 0.6:
            p[key] = pools.pct(rng)
        elif m < 0.7:
            p["seed"] = rng.choice([p["seed"] + 1, rng.randint(0, 99), int(str(p["seed"]) + "1")])
        elif m < 0.8:
            p["width"], p["length"] = p["length"], p["width"]
        elif m < 0.87:
            p["force_down"] = not p["force_down"]
        elif m < 0.93:
            p["max_reward"] = rng.choice([1, 6, 16, p["width"], p["length"], 1022, 1023, 1074, 1075, 5000, 2 ** 63, 2 ** 53 + 1, 2 ** 63 + 1, 10 ** 17 + 1,
                                          p["max_reward"] + 1, p["max_reward"] * 10])
        else:
            # swap two probabilities: the name must tell which is which
            a, b_ = rng.sample(["rb", "lb", "tb", "lt"], 2)
            p[a], p[b_] = p[b_], p[a]
        cur = p if rng.random() < 0.7 else cur
        op = {"op": "gen_cli", "params": p, "entropy": rng.randint(0, 2 ** 32)}
        if session and rng.random() < 0.8:
            op["same_process"] = True
        if rng.random() < 0.12:
            op["env"] = common.gen_env(rng, True)
            if rng.random() < 0.6:
                op["env"]["log"] = rng.choice(["i", "d", "d"])
        f = rng.random()
        if f < 0.08:
            op["fs_faults"] = [{"on": rng.choice(["write", "write", "close", "open"]), "mode": "w", "nth": rng.randint(1, 8),
                                "errno": rng.choice(["ENOSPC", "EIO", "EACCES"]), "partial": rng.choice([0, 0.5])}]
        opl.append(op)
    if not marathon and rng.random() < 0.12:
        # a parallel sweep: two neighbouring whole-percent parameter sets generated at the same time
        q = dict(cur)
        key = rng.choice(["rb", "lb", "tb", "lt"])
        q[key] = min(99, max(1, round(q[key] * 100) + rng.choice([-1, 1]))) / 100
        if q[key] != cur[key]:
            pr = genops.make_pair(rng, cur, q)
            pr["b"]["params"]["seed"] = pr["a"]["params"]["seed"]      # the names differ in the percentage
            opl.insert(rng.randrange(len(opl) + 1), pr)
    return {"cfg": {"klass": "marathon", "fd_spare": 48} if marathon else {"klass": "plain"}, "ops": opl}


def readable(spec):
    out = []
    for o in spec["ops"]:
        if o["op"] == "gen_cli":
            out.append("python roberta_generator.py " + " ".join(ops.gen_argv(o["params"])[1:]))
        elif o["op"] == "gen_manual":
            b = o["board"]
            out.append("create_sg_from_board(%r, %r, %r, %r, %r, %r)" % (dec(b["moves"]), dec(b["rewards"]), dec(b["loose"]),
                                                                        b["rb"], b["lb"], b["tb"]))
        else:
            out.append(repr(o))
    return {"ops": out}


def simplify(spec):
    ops_ = spec["ops"]
    for i, op in enumerate(ops_):
        if op["op"] == "plant_legacy" and len(op["files"]) > 1:
            for j in range(len(op["files"])):
                yield dict(spec, ops=ops_[:i] + [dict(op, files=op["files"][:j] + op["files"][j + 1:])] + ops_[i + 1:])
        if op["op"] == "gen_cli":
            p = op["params"]
            for key, small in (("width", 1), ("length", 1), ("seed", 0), ("max_reward", 1)):
                if p[key] != small:
                    yield dict(spec, ops=ops_[:i] + [dict(op, params=dict(p, **{key: small}))] + ops_[i + 1:])
            if p.get("force_down"):
                yield dict(spec, ops=ops_[:i] + [dict(op, params=dict(p, force_down=False))] + ops_[i + 1:])
            for key in ("rb", "lb", "tb", "lt"):
                if p[key] != 0.5:
                    yield dict(spec, ops=ops_[:i] + [dict(op, params=dict(p, **{key: 0.5}))] + ops_[i + 1:])


def execute(spec, w, ctx):
    events, states, discards = [], [], {}
    res = {"events": events, "states": states, "discards": discards, "violation": None}
    written = {}
    sets = []
    w.restart(0)
    for i_op, op in enumerate(spec["ops"]):
        kind = op["op"]
        if kind == "restart":
            w.restart(op.get("entropy", 0))
            continue
        if kind == "gen_pair":
            wa, wb = genops.want_fields(op["a"]), genops.want_fields(op["b"])
            if any(x is None for x in list(wa.values()) + list(wb.values())) or canon(wa) == canon(wb):
                continue
            out_a, res_b, before_p, after_p = genops.run_gen_pair(w, op)
            events.append([i_op, "gen_pair", out_a["status"], res_b["status"], res_b.get("trace")])
            pb_ = genops.pair_problem(ctx, op, out_a, res_b, before_p, after_p)
            if pb_ is not None and pb_[0] != "concurrent-run-failed":
                # each parameter set has a file of its own only if each file holds what its own set produces
                res["violation"] = viol("I17.2", i_op, pb_[1], "shared-path")
                break
            for rel in genops.game_files([k for k in after_p if before_p.get(k) != after_p.get(k)]):
                got = genops.parse_name(rel)
                for wf in (wa, wb):
                    if all(got.get(k) == wf[k] for k in wf):
                        written[rel] = canon(wf)
            continue
        if kind == "plant_legacy":
            leg = legacy_index()
            for fn in op["files"]:
                if fn in leg:
                    prm, data = leg[fn]
                    w.fs.write_bytes("inputs/" + fn, data)
                    written["inputs/" + fn] = canon(genops.want_fields({"op": "gen_cli", "params": prm}))
                    w.fired("file-of-an-earlier-version-on-disk")
            events.append([i_op, "plant_legacy", len(op["files"])])
            continue
        if kind not in ("gen_cli", "gen_manual"):
            continue
        if op.get("refused"):
            out, before, after, changed, wopens = genops.run_gen(w, op, {})
            events.append([i_op, "refused-request", out["status"], out.get("etype")])
            w.fired("refused-request-in-history")
            continue
        want = genops.want_fields(op)
        if any(want[k] is None for k in want):
            discards["not-whole-percent"] = discards.get("not-whole-percent", 0) + 1
            continue
        cfg = common.env_cfg(op)
        if op.get("fs_faults"):
            cfg["fs_faults"] = op["fs_faults"]
        out, before, after, changed, wopens = genops.run_gen(w, op, cfg)
        # every path this invocation put data into (opens, writes through handles opened earlier, changed files)
        touched = genops.game_files(set(wopens) | set(changed) | {e[2] for e in out["fs_events"] if e[1] == "write" and e[2] in after})
        what = ("create_sg_from_board(...) with " + str({k: v for k, v in want.items()})) if kind == "gen_manual" else \
            "`roberta_generator.py %s`" % " ".join(ops.gen_argv(op["params"])[1:])
        events.append([i_op, kind, out["status"], sorted(set(wopens))])
        v = None
        wset = canon(want)
        for rel in touched:
            if rel in written and written[rel] != wset:
                v = viol("I17.2", i_op, "%s put data into %s, which holds the file of a different parameter set %s: that file is silently lost" % (
                    what, rel, written[rel]), "shared-path")
                break
        if v is not None:
            res["violation"] = v
            break
        for rel in touched:
            written[rel] = wset
        paths = genops.game_files(wopens)
        if out["status"] != "ok" or len(paths) != 1:
            # crashes and file counts are C11/C15's business; nothing to name-check
            discards["no-single-file"] = discards.get("no-single-file", 0) + 1
            if out["status"] == "ok" and not touched:
                v = viol("I17.1", i_op, "%s exited normally but no file carries its parameters (nothing was written)" % what,
                         "no-file")
                res["violation"] = v
                break
            continue
        rel = paths[0]
        got = genops.parse_name(rel)
        states.append(h(rel))
        wrong = [k for k in want if got.get(k) != want[k]]
        if wrong:
            k = wrong[0]
            v = viol("I17.1", i_op, "%s created %s: the name states %s=%r, the parameter was %r" % (
                what, rel, k, got.get(k), want[k]), "name-misstates", field=k)
        sets.append(wset)
        if v is not None:
            res["violation"] = v
            break
    res["nontrivial"] = len(set(sets)) >= 2
    res["signature"] = h("|".join(sets))
    return res
