"""C16 - the saved report states exactly what was computed."""
import os

from .. import ops, pools, report, textstyle
from ..lit import enc, dec, canon, canon_e, h, short
from . import common
from .common import viol

ID = "C16"
RUNS = {"quick": 1000, "thorough": 8000}
REAL = common.REAL
SIMULATED = common.SIMULATED
ASSUMPTIONS = [
    "the oracle for 'what was computed' is the dict run_games returned inside the same CLI invocation, captured by wrapping the module attribute main() itself resolves",
    "input stems are [A-Za-z0-9_]+ (the property's alphabet); game and action names are Python identifiers-like words over letters (a few non-ASCII), digits and underscores, without X / X_no_prune pairs; files are UTF-8 and the checks run with PYTHONUTF8=1",
    "under an injected OSError, interrupt or kill the only relaxation is that the invocation may fail; a normal exit must leave a faithful report; the next clean run must repair whatever a failed one left",
    "the report grammar is the current one: blocks introduced by a line of 160 '=', lines 'label : value' with the 14 current labels",
]
RULE = ("run = pool of named games + 3-12 ops from {write input file in one of 5 textual styles under inputs/, another directory "
        "or an absolute path; CLI run (restart, main() -f path [-s] [-l]); the same reader/run_games/writer calls made from one long-lived session with the file rewritten in between (also by a same-length edit within the simulated mtime granularity), and with OSError/Ctrl-C inside a save after which the session carries on; under seeded clock/log level/stack depth, optionally with "
        "OSError at open/n-th write/close of the report or open/read of the input, or Ctrl-C/kill at a seeded step inside report "
        "writing; plant a longer/torn/garbage report at the target; restart}; non-trivial = a saved report with >=2 blocks checked, "
        "or an overwrite of a different earlier report, or a fired I/O fault/interrupt; distinct = hash of (op shapes, game hashes, faults fired)")

STEMS = ["in1", "My_Games_2", "x", "robot_1_w2_l2_r6", "A", "paper_games", "t_0", "cafe\u0301_7", "caf\u00e9_7", "\u2126_ohm"]
GNAMES = ["g", "game_a", "game_b", "X1", "fig_5_5", "a", "b2", "Robot_47", "test", "n0", "big_reward", "z_9", "game_c", "G_", "_", "0", "Z"*3 + "_" + "9"*40, "no_prune", "UPPER_lower_123", "dise\u00f1o_2", "x_no_prune_v2", "odds_in_%_9", "rb10%%_lb5%", "grid{3x3}", "cell{n_states}"]
DIRS = ["inputs", "inputs", "inputs", "other", "inputs/nested", "ABS", "."]
EXTS = [".py", ".py", ".py", ".txt", ""]
ENTRY_KEYS = ("msg", "n_states", "n_transitions", "n_iterations_reach", "n_iterations_rew",
              "reachability_strategies", "final_strategies", "probabilities", "prob_min_rew",
              "rewards", "rew_min_reach")


def n_fixed(tier):
    return 0


def fixed_specs(tier, ctx):
    return []


def _gen_marathon(rng):
    pool = []
    for i in range(3):
        pool.append({"name": "m%d" % i, "desc": enc(pools.tiny_game(rng) if i else pools.stopping_game(rng, 4, 6)), "tag": "marathon"})
    pth = ("inputs", "long_session", ".py")
    opl = []
    for _ in range(rng.randint(60, 150)):
        if rng.random() < 0.3 or not opl:
            opl.append({"op": "write_input", "dir": pth[0], "stem": pth[1], "ext": pth[2],
                        "games": rng.sample(range(3), rng.randint(1, 3)), "style": rng.choice(textstyle.STYLES), "seed": rng.randint(0, 999)})
        opl.append({"op": "lib", "dir": pth[0], "stem": pth[1], "ext": pth[2], "save": rng.random() < 0.8})
        if rng.random() < 0.2:
            opl[-1]["scribble"] = True
    return {"cfg": {"klass": "marathon", "fd_spare": 48}, "pool": pool, "ops": opl}


def gen(rng, tier, ctx):
    if rng.random() < 0.012:
        return _gen_marathon(rng)
    klass = rng.choices(["plain", "faulty"], [0.5, 0.5])[0]
    n = rng.randint(1, 6)
    names = rng.sample(GNAMES, n)
    pool = []
    for i in range(n):
        tag, e = common.pick_desc(rng, ctx, allow_bad=True)
        pool.append({"name": names[i], "desc": e, "tag": tag})
    paths = []
    for _ in range(rng.randint(1, 3)):
        stem = rng.choice(STEMS)
        if rng.random() < 0.5:      # any stem over the property's alphabet [A-Za-z0-9_]
            stem = "".join(rng.choice(STEM_ALPHABET) for _ in range(rng.randint(1, 12)))
        paths.append((rng.choice(DIRS), stem, rng.choice(EXTS)))
    if rng.random() < 0.06:
        # a name with characters that mean something to a shell or to glob / fnmatch / re, next to the sibling
        # such a pattern would match
        d0 = rng.choice(["inputs", "inputs", "other"])
        a_, b_ = rng.choice([("board[1]", "board1"), ("run_?", "run_a"), ("g*", "g_all"), ("set[ab]", "seta"), ("v1+x", "v1")])
        paths = [(d0, a_, ".py"), (d0, b_, ".py")] + paths
    if rng.random() < 0.25:
        # the same file name in two folders (a copy that was edited), one of them possibly the working directory
        d0, s0, e0 = paths[0]
        paths.append((rng.choice([d_ for d_ in DIRS if d_ != d0]), s0, e0))
    if rng.random() < 0.02 or (tier == "thorough" and rng.random() < 0.02):
        return _gen_bigfile(rng, paths[0])
    opl = []

    def write(pth=None):
        pth = pth or rng.choice(paths)
        k = rng.randint(1, min(n, 5))
        if rng.random() < 0.03:
            k = 0               # an empty dictionary of games is a legal input file
        return {"op": "write_input", "dir": pth[0], "stem": pth[1], "ext": pth[2],
                "games": rng.sample(range(n), k), "style": rng.choice(textstyle.STYLES), "seed": rng.randint(0, 999)}

    opl.append(write(paths[0]))
    if len(paths) >= 2 and paths[0][0] == paths[1][0] and paths[0][1] != paths[1][1]:
        opl.append(write(paths[1]))         # the sibling exists before the first run
    session = rng.random() < 0.3      # a long-lived session calling reader / run_games / writer itself
    for _ in range(rng.randint(2, 11 if tier == "thorough" else 8)):
        r = rng.random()
        pth = rng.choice(paths)
        if session and r < 0.7:
            if r < 0.25:
                opl.append(write(pth))
            elif r < 0.4:
                opl.append({"op": "tweak_input", "dir": pth[0], "stem": pth[1], "ext": pth[2],
                            "pick": rng.randint(0, 99), "coarse": rng.random() < 0.6})
            op = {"op": "lib", "dir": pth[0], "stem": pth[1], "ext": pth[2], "save": rng.random() < 0.8}
            if rng.random() < 0.3:
                op["scribble"] = True       # the session edits the games it read and the results it got
            if klass == "faulty":
                env = common.gen_env(rng, True)
                if env:
                    op["env"] = env
                f = rng.random()
                if f < 0.25:
                    on = rng.choice(["open", "write", "write", "close"])
                    op["fs_faults"] = [{"on": on, "mode": "w", "nth": 1 if on != "write" else rng.randint(1, 40),
                                        "errno": rng.choice(["ENOSPC", "EIO", "EACCES"]), "partial": rng.choice([0, 0.5])}]
                    op["save"] = True
                elif f < 0.4:
                    op["interrupt"] = {"frac": rng.random(), "phase": rng.choice(["report", "any"])}
                    if rng.random() < 0.4:
                        op["interrupt"]["exc"] = "MemoryError"
                    op["save"] = True
            opl.append(op)
            continue
        if r < 0.2:
            opl.append(write())
        elif r < 0.23 and len(paths) >= 1:
            # the input reached through a symbolic link with a name of its own
            tgt = rng.choice(paths)
            lnk = (rng.choice(["inputs", "inputs", "other"]), "".join(rng.choice(STEM_ALPHABET) for _ in range(rng.randint(2, 9))), tgt[2])
            opl.append({"op": "link_input", "dir": lnk[0], "stem": lnk[1], "ext": lnk[2], "to": list(tgt)})
            opl.append({"op": "cli", "dir": lnk[0], "stem": lnk[1], "ext": lnk[2], "save": True, "entropy": rng.randint(0, 2 ** 32)})
        elif r < 0.3:
            opl.append({"op": "plant", "stem": pth[1], "kind": rng.choice(["longer", "torn", "garbage"]),
                        "seed": rng.randint(0, 999)})
        elif r < 0.35:
            opl.append({"op": "restart", "entropy": rng.randint(0, 2 ** 32)})
        else:
            op = {"op": "cli", "dir": pth[0], "stem": pth[1], "ext": pth[2], "save": rng.random() < 0.8,
                  "entropy": rng.randint(0, 2 ** 32)}
            if klass == "faulty":
                op["log"] = rng.choice([None, None, "i", "d", "dd"])
                env = common.gen_env(rng, True)
                env.pop("log", None)
                if env:
                    op["env"] = env
                f = rng.random()
                if f < 0.3:
                    on = rng.choice(["open", "write", "write", "write", "close"])
                    op["fs_faults"] = [{"on": on, "mode": "w", "nth": 1 if on != "write" else rng.randint(1, 40),
                                        "errno": rng.choice(["ENOSPC", "EIO", "EACCES", "EROFS"]),
                                        "partial": rng.choice([0, 0.5])}]
                elif f < 0.38:
                    op["fs_faults"] = [{"on": rng.choice(["open", "read"]), "mode": "r", "nth": 1,
                                        "errno": rng.choice(["EIO", "EACCES", "ENOENT"])}]
                elif f < 0.6:
                    op["interrupt"] = {"frac": rng.random(), "phase": rng.choice(["report", "report", "any"])}
                    r2 = rng.random()
                    if r2 < 0.4:
                        op["kill"] = {"keep": rng.choice([0.0, rng.random(), 1.0])}
                    elif r2 < 0.65:
                        op["interrupt"]["exc"] = "MemoryError"      # a failing allocation instead of Ctrl-C
            opl.append(op)
            if (op.get("fs_faults") or op.get("interrupt")) and rng.random() < 0.8:
                opl.append({"op": "cli", "dir": pth[0], "stem": pth[1], "ext": pth[2], "save": True,
                            "entropy": rng.randint(0, 2 ** 32)})
    if rng.random() < 0.15:
        # two solver runs at the same time, on two different input files, sharing outputs/
        sa = "".join(rng.choice(STEM_ALPHABET) for _ in range(rng.randint(1, 8)))
        sb = sa + rng.choice(["_1", "2", "_b", "x"])
        da, db = rng.choice(DIRS), rng.choice(DIRS)
        wa, wb = write((da, sa, ".py")), write((db, sb, ".py"))
        opl += [wa, wb, {"op": "cli_pair", "sched": rng.randint(0, 2 ** 32), "p": rng.choice([0.1, 0.3, 0.3, 0.6]),
                         "a": {"op": "cli", "dir": da, "stem": sa, "ext": ".py", "save": True, "entropy": rng.randint(0, 2 ** 32)},
                         "b": {"op": "cli", "dir": db, "stem": sb, "ext": ".py", "save": rng.random() < 0.85, "entropy": rng.randint(0, 2 ** 32)}}]
    cfg = {"klass": klass}
    if rng.random() < 0.12:
        cfg["locale"] = rng.choice(["cp1252", "cp1252", "ascii", "latin-1"])     # default text encoding of the machine
    return {"cfg": cfg, "pool": pool, "ops": opl}


STEM_ALPHABET = "abcdefghijklmnopqrstuvwxyzABCDEFGHIJKLMNOPQRSTUVWXYZ0123456789_" + "pytxPY_"


def _gen_bigfile(rng, pth):
    """An input file of several hundred small games (> 128 KiB): edited in the middle, same length."""
    n = rng.randint(700, 1100)
    pool = []
    for i in range(n):
        p = rng.choice([0.5, 0.25, 0.75, 0.125])
        g = {"rewards": [rng.randint(1, 8), 0, 0], "players": ["Probabilistic"] * 3,
             "transition_list": [[(p, 1), (1 - p, 2)], [(1, 1)], [(1, 2)]], "final_states": [2]}
        pool.append({"name": "g%04d" % i, "desc": enc(g), "tag": "mini"})
    wr = {"op": "write_input", "dir": pth[0], "stem": pth[1], "ext": pth[2], "games": list(range(n)),
          "style": rng.choice(["repr", "indented"]), "seed": rng.randint(0, 999)}
    opl = [wr]
    for _ in range(rng.randint(2, 3)):
        kind = rng.choice(["cli", "cli", "lib"])
        op = {"op": kind, "dir": pth[0], "stem": pth[1], "ext": pth[2], "save": True, "entropy": rng.randint(0, 2 ** 32)}
        opl.append(op)
        opl.append({"op": "tweak_input", "dir": pth[0], "stem": pth[1], "ext": pth[2],
                    "pick": rng.randint(n // 3, 2 * n // 3), "coarse": rng.random() < 0.5})
    opl.append({"op": "cli", "dir": pth[0], "stem": pth[1], "ext": pth[2], "save": True, "entropy": rng.randint(0, 2 ** 32)})
    return {"cfg": {"klass": "bigfile"}, "pool": pool, "ops": opl}


def readable(spec):
    return {"pool": ["%d: %s (%s) = %r" % (i, p["name"], p.get("tag"), dec(p["desc"])) for i, p in enumerate(spec["pool"])],
            "ops": [repr(o) for o in spec["ops"]]}


def simplify(spec):
    yield from common.drop_unused_pool(spec)
    ops_ = spec["ops"]
    for i, op in enumerate(ops_):
        if op["op"] == "tweak_input" and op.get("coarse"):
            yield dict(spec, ops=ops_[:i] + [dict(op, coarse=False)] + ops_[i + 1:])
        if op["op"] == "write_input" and len(op["games"]) > 1:
            for j in range(len(op["games"])):
                yield dict(spec, ops=ops_[:i] + [dict(op, games=op["games"][:j] + op["games"][j + 1:])] + ops_[i + 1:])
        if op["op"] == "write_input" and op.get("style") != "repr":
            yield dict(spec, ops=ops_[:i] + [dict(op, style="repr")] + ops_[i + 1:])
        if op["op"] == "cli" and op.get("log"):
            yield dict(spec, ops=ops_[:i] + [dict(op, log=None)] + ops_[i + 1:])
    yield from common.simplify_env(spec)
    tiny = enc({"rewards": [0, 0, 0], "players": ["Probabilistic"] * 3,
                "transition_list": [[(0.5, 1), (0.5, 2)], [(1, 1)], [(1, 2)]], "final_states": [2]})
    for i, p in enumerate(spec["pool"]):
        if canon_e(p["desc"]) != canon_e(tiny):
            np_ = list(spec["pool"])
            np_[i] = dict(p, desc=tiny, tag="tiny")
            yield dict(spec, pool=np_)


def _path(w, op):
    d = op["dir"]
    fn = op["stem"] + op.get("ext", ".py")
    if d == "ABS":
        return os.path.join(w.root, "abs_dir", fn), os.path.join("abs_dir", fn)
    if d == ".":
        return fn, fn               # a bare file name in the working directory
    return d + "/" + fn, os.path.join(d, fn)


def check_report(i_op, text, ret, stem):
    """I16.2: the report text reads back to exactly `ret` (the dict run_games returned)."""
    try:
        blocks = report.parse(text)
    except report.ReportError as e:
        return viol("I16.2", i_op, "outputs/%s.txt does not parse as a report: %s" % (stem, e), "report-unparseable")
    ents = list(ret.items())
    if len(blocks) != len(ents):
        return viol("I16.2", i_op, "outputs/%s.txt has %d blocks, the run produced %d entries (%s)" % (
            stem, len(blocks), len(ents), [k for k, _ in ents]), "block-count")
    for j, (b, (name, ent)) in enumerate(zip(blocks, ents)):
        if b.get("name") != str(name):
            return viol("I16.2", i_op, "block %d is %r, run order says %r (%s)" % (j, b.get("name"), name, [k for k, _ in ents]),
                        "block-order")
        for k in ENTRY_KEYS:
            if k not in b:
                return viol("I16.2", i_op, "block %r has no line for %s" % (name, k), "line-missing", field=k)
            want = ent.get(k)
            got = b[k]
            if k == "msg":
                ok = got == str(want)
            else:
                ok = canon(got) == canon(want)
            if not ok:
                return viol("I16.2", i_op, "block %r line %s reads back %s, the run produced %s" % (
                    name, k, short(got, 300), short(want, 300)), "value-differs", field=k)
        if "are_equal" not in b:
            return viol("I16.2", i_op, "block %r has no equality flag" % name, "line-missing", field="are_equal")
        if b["are_equal"] is not (ent.get("reachability_strategies") == ent.get("final_strategies")):
            return viol("I16.2", i_op, "block %r equality flag %r, strategies %s" % (
                name, b["are_equal"], "equal" if ent.get("reachability_strategies") == ent.get("final_strategies") else "differ"),
                "value-differs", field="are_equal")
    return None


def execute(spec, w, ctx):
    pool = spec["pool"]
    events, states, discards = [], [], {}
    res = {"events": events, "states": states, "discards": discards, "violation": None}
    files = {}          # rel path -> ordered list of pool indices it denotes
    last_report = {}    # stem -> hash of the last report content
    nontrivial = False
    shapes = []
    usable = {}
    for i, p in enumerate(pool):
        rp = common.ref_solve(ctx, p["desc"], True)
        ok = rp["status"] == "ok" or (rp["status"] == "exc" and rp["etype"] == "ValueError")
        if rp["status"] == "ok":
            ru = common.ref_solve(ctx, p["desc"], False)
            ok = ru["status"] == "ok"
        usable[i] = (ok, (rp.get("steps") or 0) * 2)
    w.restart(0)
    w.fs.encoding = spec.get("cfg", {}).get("locale") or "utf-8"
    if w.fs.encoding != "utf-8":
        w.fired("locale-" + w.fs.encoding)

    def run_cli(op, cfg, cap):
        path, rel = _path(w, op)
        if op["op"] == "lib":
            c2 = dict(cfg)
            if c2.get("log") in ("d", "dd"):
                c2["log"] = "i"
            return ops.solver_lib(w, path, bool(op.get("save")), c2, cap)
        log = op.get("log")
        if log in ("d", "dd") and files.get(rel, {}).get("steps", 0) > 30000:
            log = "i"       # debug logging emits a record per state per sweep: minutes for long solves
        return ops.solver_cli(w, path, bool(op.get("save")), log, cfg, op.get("entropy", 0), cap)

    for i_op, op in enumerate(spec["ops"]):
        kind = op["op"]
        v = None
        if kind == "restart":
            w.restart(op.get("entropy", 0))
            continue
        if kind == "write_input":
            games = [g for g in op["games"] if g < len(pool) and usable[g][0]]
            dropped = len(op["games"]) - len(games)
            if dropped:
                discards["unusable-game"] = discards.get("unusable-game", 0) + dropped
            if not games and op["games"]:
                continue
            path, rel = _path(w, op)
            denoted_now = {pool[g]["name"]: dec(pool[g]["desc"]) for g in games}
            text = textstyle.render(denoted_now, op["style"], op.get("seed", 0))
            if not w.fs.encodable(text):
                discards["not-encodable-in-locale"] = discards.get("not-encodable-in-locale", 0) + 1
                continue
            w.fs.write_text(rel, text)
            files[rel] = {"games": denoted_now, "steps": sum(usable[g][1] for g in games), "style": op["style"],
                          "seed": op.get("seed", 0), "len": len(text)}
            nms = [pool[g]["name"] for g in games]
            events.append([i_op, "write_input", rel, nms if len(nms) <= 8 else "%d games" % len(nms), op["style"], h(text)])
            shapes.append("w%d%s" % (len(games), op["style"][0]))
            continue
        if kind == "link_input":
            path, rel = _path(w, op)
            tpath, trel = _path(w, {"dir": op["to"][0], "stem": op["to"][1], "ext": op["to"][2]})
            if trel not in files or rel == trel or rel in files:
                continue
            w.fs.symlink(rel, trel)
            files[rel] = files[trel]        # the same text, reached under another name
            w.fired("symlinked-input")
            events.append([i_op, "link_input", rel, trel])
            shapes.append("l")
            continue
        if kind == "tweak_input":
            # an editor changes one digit and saves: same length, and (coarse) within the mtime granularity
            path, rel = _path(w, op)
            rec = files.get(rel)
            if rec is None or not rec["games"]:
                continue
            import copy
            new = copy.deepcopy(rec["games"])
            names = sorted(new)
            nm = names[op.get("pick", 0) % len(names)]
            rw = new[nm].get("rewards")
            idxs = [k for k, x in enumerate(rw or []) if type(x) is int and 1 <= x <= 8]
            if not idxs:
                continue
            k = idxs[op.get("pick", 0) % len(idxs)]
            rw[k] += 1
            e = enc({f: new[nm].get(f) for f in ops.FIELDS})
            rp = common.ref_solve(ctx, e, True)
            ok = rp["status"] == "ok" and common.ref_solve(ctx, e, False)["status"] == "ok"
            ok = ok or (rp["status"] == "exc" and rp["etype"] == "ValueError")
            text = textstyle.render(new, rec["style"], rec["seed"])
            if not ok or len(text) != rec["len"]:
                discards["tweak-not-applicable"] = discards.get("tweak-not-applicable", 0) + 1
                continue
            w.fs.write_text(rel, text, advance=not op.get("coarse"))
            rec["games"] = new
            w.fired("same-length-rewrite" + ("-same-mtime" if op.get("coarse") else ""))
            events.append([i_op, "tweak_input", rel, nm, k, h(text)])
            shapes.append("t")
            continue
        if kind == "plant":
            rel = "outputs/%s.txt" % op["stem"]
            text = _planted(op, w)
            w.fs.write_text(rel, text)
            w.fired("planted-" + op["kind"])
            events.append([i_op, "plant", rel, op["kind"], len(text)])
            shapes.append("p" + op["kind"][0])
            continue
        if kind == "cli_pair":
            xa, xb = op["a"], op["b"]
            (_pa, rel_a), (_pb, rel_b) = _path(w, xa), _path(w, xb)
            if rel_a not in files or rel_b not in files or xa["stem"] == xb["stem"]:
                continue
            before = w.fs.snapshot()
            cap_a, cap_b = {}, {}
            cfg_p = {"step_cap": 20 * (files[rel_a]["steps"] + files[rel_b]["steps"]) + 400000}

            def summ_b(out_):
                s_ = ops.brief(out_)
                s_["arg"] = cap_b.get("arg")
                s_["ret"] = enc(cap_b["ret_obj"]) if "ret_obj" in cap_b else None
                return s_
            out_a, res_b = ops.concurrently(w, int(op.get("sched", 0)), float(op.get("p", 0.3)),
                                            lambda: run_cli(xa, dict(cfg_p), cap_a), lambda: run_cli(xb, dict(cfg_p), cap_b), summ_b)
            cap_b2 = {}
            if res_b.get("arg") is not None:
                cap_b2["arg"] = res_b["arg"]
            if res_b.get("ret") is not None:
                cap_b2["ret_obj"] = dec(res_b["ret"])
            events.append([i_op, "cli_pair", rel_a, rel_b, out_a["status"], res_b["status"], res_b.get("trace")])
            shapes.append("P")
            ta, tb = "outputs/%s.txt" % xa["stem"], "outputs/%s.txt" % xb["stem"]
            v = _judge(i_op, xa, out_a, cap_a, before, w, files[rel_a]["games"], True, set(files), also_ok={tb})
            if v is None:
                v = _judge(i_op, xb, res_b, cap_b2, before, w, files[rel_b]["games"], True, set(files), also_ok={ta})
            if v is not None:
                v["msg"] = "two invocations at the same time (on %s and %s): %s" % (rel_a, rel_b, v["msg"])
                res["violation"] = v
                break
            nontrivial = True
            for x_ in (xa, xb):
                if x_.get("save"):
                    try:
                        last_report[x_["stem"]] = h(w.fs.read_bytes("outputs/%s.txt" % x_["stem"]))
                    except OSError:
                        pass
            continue
        if kind not in ("cli", "lib"):
            continue
        path, rel = _path(w, op)
        if rel not in files:
            continue
        denoted = files[rel]["games"]
        est = files[rel]["steps"]
        cfg = common.env_cfg(op)
        cfg["step_cap"] = 20 * est + 200000
        if op.get("fs_faults"):
            cfg["fs_faults"] = op["fs_faults"]
        before = w.fs.snapshot()
        intr = op.get("interrupt")
        if intr and est > 120000:
            intr = None         # fine-grained stepping of a long solve costs minutes; run it as a plain op
            discards["interrupt-skipped-long-solve"] = discards.get("interrupt-skipped-long-solve", 0) + 1
        if intr:
            # measure the clean run first (it is a legitimate op and is checked like any other)
            cap0 = {}
            c0 = dict(cfg, fine=True, step_cap=40 * cfg["step_cap"])     # fine steps >> coarse steps
            c0.pop("fs_faults", None)
            out0 = run_cli(op, c0, cap0)
            v = _judge(i_op, op, out0, cap0, before, w, denoted, clean=True, inputs=set(files))
            if v is not None:
                res["violation"] = v
                break
            total = out0["steps"]
            lo = 1
            if intr.get("phase") == "report":
                opens = [e[4] for e in out0["fs_events"] if e[1].startswith("open:w")]
                if opens:
                    lo = opens[0]
            at = common.interrupt_at(intr, out0, lo)
            cfg["interrupt"] = {"at": at, "exc": intr.get("exc")}
            cfg["step_cap"] = 40 * cfg["step_cap"]
            if op.get("kill"):
                cfg["kill"] = op["kill"]
            before = w.fs.snapshot()
        cap = {}
        out = run_cli(op, cfg, cap)
        faulted = bool(out["fs_fired"]) or out["status"] == "interrupt" or bool(out.get("injected"))
        events.append([i_op, "cli", rel, out["status"], out["steps"], out.get("etype"), out["fs_fired"], out.get("site")])
        shapes.append("%s%s%s" % (kind[0], "s" if op.get("save") else "-", "F" if faulted else ""))
        if kind == "lib":
            w.fired("same-process-session-call")
        v = _judge(i_op, op, out, cap, before, w, denoted, clean=not faulted, inputs=set(files))
        if kind == "lib" and op.get("scribble"):
            w.fired("caller-edits-returned-value", ops.scribble(cap.get("arg_obj")) + ops.scribble(cap.get("ret_obj")))
        if v is None and out["status"] == "ok" and op.get("save"):
            stem = op["stem"]
            now = h(w.fs.read_bytes("outputs/%s.txt" % stem))
            if len(cap.get("ret_obj", {})) >= 2:
                nontrivial = True
            if stem in last_report and last_report[stem] != now:
                nontrivial = True
                w.probe("report-overwrote-different-report")
            last_report[stem] = now
            states.append(now)
        if faulted:
            nontrivial = True
            if out["status"] == "interrupt":
                w.probe("interrupt-in:" + str(out.get("site", "?")).split(":")[0])
                try:
                    txt = w.fs.read_text("outputs/%s.txt" % op["stem"])
                    report.parse(txt)
                except report.ReportError:
                    w.probe("torn-report-left-behind")
                except Exception:
                    pass
        if v is not None:
            res["violation"] = v
            break
    res["nontrivial"] = nontrivial
    res["signature"] = h("|".join(shapes) + "#" + ",".join(h(canon_e(p["desc"])) for p in pool) + "#" + ",".join(sorted(w.fault_counts)))
    return res


def _judge(i_op, op, out, cap, before, w, denoted, clean, inputs=(), also_ok=()):
    """Invariants after one CLI invocation."""
    stem = op["stem"]
    target = "outputs/%s.txt" % stem
    after = w.fs.snapshot()
    changed = sorted(k for k in set(before) | set(after) if before.get(k) != after.get(k))
    # I16.1 - whatever happened later, the reader must have produced the denoted games
    if "arg" in cap and canon_e(cap["arg"]) != canon(denoted):
        return viol("I16.1", i_op, "the games handed to the solver differ from what the input text denotes: got %s, text denotes %s" % (
            short(dec(cap["arg"]), 400), short(denoted, 400)), "reader-differs")
    if out["status"] == "ok":
        if "ret_obj" not in cap:
            return None     # run_games not reached through the module attribute: nothing to compare with
        ret = cap["ret_obj"]
        if op.get("save"):
            if target not in after:
                return viol("I16.2", i_op, "`-s` run exited normally but %s does not exist (changed: %s)" % (target, changed),
                            "report-missing" if clean else "silent-failure")
            others = [c for c in changed if c != target and c not in also_ok]
            clobbered = [c for c in others if _is_user_file(c, inputs)]
            if clobbered:
                return viol("I16.2", i_op, "`-s` run changed files other than %s: %s" % (target, clobbered), "stray-write")
            if others:
                w.probe("auxiliary-file-written")   # a log/cache next to the report is not what C16 forbids
            try:
                text = after[target].decode(w.fs.encoding)
            except UnicodeDecodeError as e:
                return viol("I16.2", i_op, "%s is not text: %s" % (target, e), "report-unparseable")
            v = check_report(i_op, text, ret, stem)
            if v is not None and not clean:
                v["sig"]["class"] = "silent-failure:" + v["sig"]["class"]
                v["inv"] = v["sig"]["inv"] = "I16.3"
                v["msg"] = "invocation exited normally although a fault was injected (%s), yet: %s" % (
                    out["fs_fired"] or out.get("injected") or out["status"], v["msg"])
            if v is None:
                w.probe("reports-verified")
                _time_probe(w, text, ret)
            return v
        else:
            clobbered = [c for c in changed if _is_user_file(c, inputs) and c not in also_ok]
            if clobbered:
                return viol("I16.2", i_op, "run without -s changed report/input files: %s" % clobbered, "stray-write")
            if changed:
                w.probe("auxiliary-file-written")
        return None
    if clean:
        # nothing was injected: the invocation has to finish (inputs are usable by construction)
        return viol("I16.2", i_op, "clean invocation on %s did not finish: %s %s %s" % (
            op["stem"], out["status"], out.get("etype") or out.get("code") or "", out.get("emsg") or out.get("info") or ""),
            "cli-failed")
    return None


def _is_user_file(rel, inputs=()):
    """Reports and the input files the client wrote are the user's; anything else (a cache,
    a log, a backup in a directory of its own) the code may keep for itself."""
    base = rel.rsplit("/", 1)[-1]
    if base.startswith("."):
        return False
    if rel.startswith("outputs/"):
        return base.endswith(".txt") and "/" not in rel[len("outputs/"):]
    return rel in inputs


def _time_probe(w, text, ret):
    try:
        blocks = report.parse(text)
        ok = all(canon(b.get("total_time")) == canon(e.get("total_time")) for b, e in zip(blocks, ret.values()))
        w.probe("total_time-line-exact" if ok else "total_time-line-NOT-exact")
        for e in ret.values():
            t = e.get("total_time")
            if isinstance(t, float):
                if t < 0:
                    w.probe("negative-total_time-in-report")
                elif t == 0:
                    w.probe("zero-total_time-in-report")
                elif "e" in repr(t):
                    w.probe("exponent-total_time-in-report")
    except Exception:
        pass


def _planted(op, w):
    import random
    rng = random.Random(op.get("seed", 0))
    block = report.RULE + "\n" + "".join("%-24s: %s\n" % (lab, val) for lab, val in [
        ("Running example", "stale_game"), ("Message", "Game solved"), ("number of states", 3),
        ("number of transitions", 4), ("n iterations reach", 2), ("n iterations rew", 2),
        ("Reachability strategies", [None, None, None]), ("Final strategies", [None, None, None]),
        ("Are equal", True), ("Probabilities", [0.5, 0, 1]), ("Probabilities min rew", [0.5, 0, 1]),
        ("Rewards", [0.0, 0, 0]), ("Rewards min reach", [0.0, 0, 0]), ("Total time", 0.001)])
    if op["kind"] == "longer":
        return block * rng.randint(8, 30)
    if op["kind"] == "torn":
        t = block * rng.randint(1, 4)
        return t[: rng.randint(1, len(t) - 1)]
    return "".join(chr(rng.randint(32, 126)) for _ in range(rng.randint(1, 5000)))
