"""Helpers shared by the property modules."""
from ..lit import enc, dec, canon, canon_e, h

REAL = ["tad.py", "reverse_dfs.py", "conditionalrewards.py (reader, run_games, report writer, main, argparse)",
        "roberta_generator.py (gen_rnd_board, write_robots, main, argparse)",
        "stochastic_game_from_roborta_board.py", "copy.deepcopy", "logging", "eval",
        "CPython text I/O on a real tmpfs directory"]
SIMULATED = ["client issuing the operation sequence", "wall clock (SimClock)",
             "I/O fault decisions and torn/lost buffered writes (SimFS proxy around real files)",
             "process restarts (fresh module objects, only files survive)",
             "OS entropy / other tenants of the global PRNG", "Ctrl-C / kill at a seeded step (StepClock)",
             "signal handlers and exit hooks of the simulated process", "failing / short system calls (open, write, close, rename, mkdir, remove)",
             "home and temp directories, mounts (EXDEV), locale encoding, warning filters, decimal context of the host process",
             "a second invocation running at the same time (forked partner, seeded token over file-system events)",
             "scheduling of threads the code starts (seeded baton scheduler; inert while there are none)",
             "callers editing returned values and their own descriptions in place",
             "pristine reference = same code in a never-used process (for C10/C12/C15 a fresh interpreter with another string-hash seed)"]


def gen_env(rng, faulty=True):
    """Environment of one op: log level, stack headroom, PRNG pollution, clock."""
    e = {}
    if not faulty:
        return e
    r = rng.random()
    if r < 0.15:
        e["log"] = "i"
    elif r < 0.2:
        e["log"] = "d"
    if rng.random() < 0.15:
        e["depth"] = rng.choice([100, 400])
    if rng.random() < 0.3:
        e["pollute"] = rng.randint(0, 2 ** 32)
    if rng.random() < 0.4:
        e["clock"] = {"mode": rng.choice(["steady", "tiny", "frozen", "backward", "jump"]),
                      "seed": rng.randint(0, 2 ** 32)}
    if rng.random() < 0.08:
        e["ambient"] = {"decimal_rounding": rng.choice(["ROUND_DOWN", "ROUND_UP", "ROUND_FLOOR", "ROUND_CEILING", "ROUND_HALF_UP"]),
                        "decimal_prec": rng.choice([28, 6, 3])}
    if rng.random() < 0.07:
        e.setdefault("ambient", {})["warnings"] = "error"       # the host process turns warnings into errors
    return e


def env_cfg(op):
    e = op.get("env") or {}
    return {k: e[k] for k in ("log", "depth", "pollute", "clock", "ambient") if k in e}


def simplify_env(spec):
    """Candidates with one op's environment removed (log level -> none, depth -> 0, ...)."""
    ops = spec.get("ops", [])
    for i, op in enumerate(ops):
        if op.get("env"):
            yield dict(spec, ops=ops[:i] + [{k: v for k, v in op.items() if k != "env"}] + ops[i + 1:])
    for i, op in enumerate(ops):
        for key in ("interrupt", "fs_faults", "kill", "plant", "scribble"):
            if op.get(key):
                yield dict(spec, ops=ops[:i] + [{k: v for k, v in op.items() if k != key}] + ops[i + 1:])


def interrupt_at(intr, out0, lo=1):
    """Fine step at which to interrupt a second execution of the op whose clean execution was out0.
    Either a seeded fraction of the run (from step lo on), or - biased towards the instants that matter -
    a few lines after the k-th file-system event of the clean run (an open, the n-th write, a flush, a close,
    a rename, a remove): right after a checkpoint was taken, right before the rename, between two entries."""
    total = int(out0.get("steps") or 1)
    if intr.get("after_event") is not None:
        evs = [e for e in out0.get("fs_events", []) if e[4] >= lo]
        if evs:
            e = evs[int(intr["after_event"]) % len(evs)]
            return max(1, min(total, e[4] + 1 + int(intr.get("delta", 0))))
    return lo + int(float(intr.get("frac", 0.5)) * max(0, total - lo))


def viol(inv, op_index, msg, cls, **sig):
    s = {"inv": inv, "class": cls}
    s.update(sig)
    return {"inv": inv, "op": op_index, "msg": msg, "sig": s}


def fields_canon(desc, fields):
    return canon({k: desc.get(k) for k in fields})


# ---------------------------------------------------------------------------
# pools that come from the repository itself (through the pristine reference)
# ---------------------------------------------------------------------------

PAPER_FILES = ["paper_games.py", "example_games.py", "example_17_08.py", "manual_1_game_a.py",
               "manual_arrow_bottom.py", "robot_1_w1_l2_r6_rb10_lb5_tb10_lt0.py",
               "robot_1_w2_l1_r6_rb10_lb5_tb10_lt0.py", "robot_1_w2_l2_r6_rb10_lb5_tb10_lt0.py"]


def paper_pool(ctx):
    """[(name, encoded description)] for every game of the small committed inputs,
    read with the real reader in a pristine process."""
    if "paper" in ctx.cache:
        return ctx.cache["paper"]
    import os
    from .. import proc
    out = []
    for fn in PAPER_FILES:
        p = os.path.join(proc.REPO_DIR, "inputs", fn)
        if not os.path.exists(p):
            continue
        r = ctx.ref.call("read_file", {"path": p}, key=("read_file", p))
        if r["status"] != "ok":
            continue
        d = dec(r["value"])
        if not isinstance(d, dict):
            continue
        for name, g in d.items():
            if isinstance(g, dict):
                out.append((fn[:-3] + ":" + str(name), enc(g)))
    ctx.cache["paper"] = out
    return out


def board_games(ctx, params):
    """The three games the real generator emits for params (None if it refuses)."""
    key = ("gen_games", canon(params))
    r = ctx.ref.call("gen_games", {"params": params}, key=key)
    rd = r.get("read")
    if r["status"] != "ok" or not rd or rd["status"] != "ok":
        return None
    d = dec(rd["value"])
    if not isinstance(d, dict):
        return None
    return {k: enc(v) for k, v in d.items() if isinstance(v, dict)}


def ref_solve(ctx, desc_e, prune, fine=False):
    cap = getattr(ctx, "sweep_cap", None)
    key = ("solve", canon_e(desc_e), bool(prune), bool(fine), cap)
    return ctx.ref.call("solve", {"desc": desc_e, "prune": bool(prune), "fine": bool(fine), "sweep_cap": cap}, key=key)


def pick_desc(rng, ctx, allow_bad=True, big_ok=False):
    """One description from the swarm of pools; returns (tag, encoded desc)."""
    from .. import pools
    r = rng.random()
    if r < 0.25:
        pp = paper_pool(ctx)
        if pp:
            name, e = pp[rng.randrange(len(pp))]
            return "paper:" + name, e
    if r < 0.35:
        big = big_ok and rng.random() < 0.3
        prm = pools.gen_params(rng, "small" if big else "tiny")
        if big and rng.random() < 0.6:
            prm["width"], prm["length"] = rng.choice([(4, 5), (5, 4), (5, 5), (3, 7)])      # game_c above 200 states
            for k_ in ("rb", "lb", "tb"):
                prm[k_] = min(0.9, max(0.1, prm[k_]))                                   # converge quickly
        bg = board_games(ctx, prm)
        if bg:
            k = "game_c" if (big and rng.random() < 0.6 and "game_c" in bg) else rng.choice(sorted(bg))
            return "board:" + k, bg[k]
    if allow_bad and r < 0.43:
        return "bad", enc(pools.bad_game(rng))
    if r < 0.48:
        return "nosol", enc(pools.nosol_game(rng))
    if r < 0.54:
        return "rand", enc(pools.rand_game(rng))
    if r < 0.58:
        return "tiny", enc(pools.tiny_game(rng))
    return "stopping", enc(pools.stopping_game(rng))


def drop_unused_pool(spec):
    """Candidate without the pool entries no op refers to (indices remapped)."""
    used = sorted({g for op in spec.get("ops", []) for g in op.get("games", []) if isinstance(g, int)})
    pool = spec.get("pool", [])
    if len(used) == len(pool) or not pool:
        return
    mp = {g: i for i, g in enumerate(used)}
    ops_ = [dict(op, games=[mp[g] for g in op["games"]]) if "games" in op else op for op in spec["ops"]]
    yield dict(spec, pool=[pool[g] for g in used if g < len(pool)], ops=ops_)
