"""C11 - every accepted parameter set yields a loadable, proper three-game file."""
import random

from .. import ops, pools, proc
from ..lit import enc, dec, canon, canon_e, h, short
from . import common, genops
from .common import viol

ID = "C11"
RUNS = {"quick": 160, "thorough": 450}
REAL = common.REAL
SIMULATED = common.SIMULATED
ASSUMPTIONS = [
    "termination is judged by the step clock: a solve is 'divergent' only if the per-sweep diff of the running value-iteration loop stayed constant (relative change < 1e-6) over 500 sweeps after at least 1500 sweeps; hitting the sweep/step cap otherwise is 'inconclusive' and never a violation",
    "the solve clause is exercised for break probabilities in [0.01, 0.99] only (closer to 0 or 1 legitimate convergence exceeds any practical budget); structure and loadability are checked for all probabilities",
    "the reader/solver side runs in a never-used forked process per file (that is what a fresh CLI process is); its results are cached per distinct game",
    "regeneration must reproduce byte-for-byte what the same command writes on an empty disk (self-model), so a stale tail or append is caught whatever the file format",
]
RULE = ("run = 2-7 ops from {generator CLI on seeded accepted parameters (tiny/small/wide/tall boards, probabilities k/100, "
        "many-digit, near-0/near-1), manual entry point on a hand-made board, plant a longer/torn/garbage file at the path the "
        "next invocation writes, OSError at open/n-th write/close, Ctrl-C/kill at a seeded step inside the writer followed by a "
        "clean regeneration, the same entry points called repeatedly inside one long-lived process, restart}; after every normal exit: one file, loads to game_a/b/c, structure, solve-or-no-solution (per game in a pristine process, and for cheap files also through the solver CLI in a restarted process under a seeded stepping/frozen/backward clock); "
        "non-trivial = a generated file loaded and solved with an overwrite or a non-tiny board or a fired fault; "
        "distinct = hash of (parameter sets, op shapes, faults fired)")

QUICK_CLASSES = (["tiny", "small", "wide"], [0.6, 0.3, 0.1])
THOROUGH_CLASSES = (["tiny", "small", "wide", "tall"], [0.45, 0.3, 0.15, 0.1])


SWEEP_CHUNKS = 8


def n_fixed(tier):
    return 4 + 2 * SWEEP_CHUNKS


def _size_sweep(tier):
    """Every tile count 1..N once (as a near-square board and, for some, as a single row or column): sizes at
    which a block, chunk or buffer of the writer happens to be exactly full are met by enumeration, not by luck.
    Load and structure only."""
    top = 260 if tier == "quick" else 900
    chunks = [[] for _ in range(SWEEP_CHUNKS)]
    for a in range(1, top + 1):
        w_ = max(d for d in range(1, int(a ** 0.5) + 1) if a % d == 0)
        shapes = [(w_, a // w_)]
        if a % 3 == 0 and (3, a // 3) not in shapes:
            shapes.append((a // 3, 3) if a % 2 else (3, a // 3))
        if a % 7 == 1:
            shapes.append((1, a) if a % 2 else (a, 1))
        for (w, l) in shapes:
            if w > 64 and l > 1:
                continue
            chunks[a % SWEEP_CHUNKS].append(
                {"op": "gen_cli", "solve": False, "same_process": bool(a % 5 == 0),
                 "params": {"seed": a, "width": w, "length": l, "max_reward": (6, 1, 64)[a % 3], "rb": 0.1, "lb": 0.2,
                            "tb": 0.3, "lt": 0.3, "force_down": bool(a % 2)}})
    return [{"cfg": {"klass": "size-sweep"}, "ops": c} for c in chunks]


def fixed_specs(tier, ctx):
    # exemplar of the open divergence finding + a tall board (recursion depth)
    div = {"seed": 903976, "width": 3, "length": 2, "max_reward": 6, "rb": 0.01, "lb": 0.9, "tb": 0.5, "lt": 0.3,
           "force_down": True}
    tall = {"seed": 0, "width": 1, "length": 220 if tier == "quick" else 400, "max_reward": 6, "rb": 0.5, "lb": 0.5,
            "tb": 0.5, "lt": 0.3, "force_down": True}
    # > 8192 states per game: file of a few MB, loadability and structure only
    huge = {"seed": 4, "width": 52 if tier == "quick" else 64, "length": 50 if tier == "quick" else 64, "max_reward": 6,
            "rb": 0.1, "lb": 0.2, "tb": 0.3, "lt": 0.3, "force_down": True}
    return [{"cfg": {"klass": "plain"}, "ops": [{"op": "gen_cli", "params": div, "solve": True}]},
            {"cfg": {"klass": "plain"}, "ops": [{"op": "gen_cli", "params": tall, "solve": True}]},
            {"cfg": {"klass": "plain"}, "ops": [{"op": "gen_cli", "params": huge, "solve": False},
                                                {"op": "gen_cli", "params": dict(huge, seed=5, width=30, length=30), "solve": False,
                                                 "same_process": True}]},
            # extreme shapes: very long, very wide (load + structure only)
            {"cfg": {"klass": "plain"}, "ops": [{"op": "gen_cli", "params": dict(huge, seed=6, width=1, length=3500), "solve": False},
                                                {"op": "gen_cli", "params": dict(huge, seed=7, width=130, length=2), "solve": False},
                                                {"op": "gen_cli", "params": dict(huge, seed=8, width=3000, length=1,
                                                                                 force_down=False), "solve": False}]}] + _size_sweep(tier) + _round_counts(tier, ctx)


def _round_counts(tier, ctx):
    """Board sizes at which one of the three games has a *round* number of states (a multiple of 512, 1000, 1024,
    4096, 5000, 8192, 10000): a writer that works in blocks meets its boundary case exactly there.  The number of states
    per game is measured on two small boards of the reference and extrapolated linearly (checked on a third)."""
    def counts(n):
        g = common.board_games(ctx, {"seed": 1, "width": 1, "length": n, "max_reward": 1, "rb": 0.5, "lb": 0.5, "tb": 0.5,
                                     "lt": 0.5, "force_down": False})
        if not g:
            return None
        try:
            return {k: len(dec(v)["players"]) for k, v in g.items()}
        except Exception:
            return None
    c1, c2, c3 = counts(4), counts(9), counts(13)
    sizes = set()
    if c1 and c2 and c3 and set(c1) == set(c2) == set(c3):
        for k in c1:
            a, rem = divmod(c2[k] - c1[k], 5)
            b = c1[k] - 4 * a
            if rem or a <= 0 or a * 13 + b != c3[k]:
                continue
            top = 1500 if tier == "quick" else 6000
            for m in (512, 1000, 1024, 2048, 4096, 5000, 8192, 10000, 16384, 65536):
                for n in range(1, top + 1):
                    if (a * n + b) % m == 0:
                        sizes.add(n)
    chunks = [[] for _ in range(SWEEP_CHUNKS)]
    for j, n in enumerate(sorted(sizes)):
        w_ = max(d for d in range(1, int(n ** 0.5) + 1) if n % d == 0)
        w_, l_ = (w_, n // w_) if w_ > 1 and n // w_ <= 400 else (1, n)
        chunks[j % SWEEP_CHUNKS].append({"op": "gen_cli", "solve": False,
                                         "params": {"seed": n, "width": w_, "length": l_, "max_reward": 3, "rb": 0.1, "lb": 0.2,
                                                    "tb": 0.3, "lt": 0.3, "force_down": bool(n % 2)}})
    return [{"cfg": {"klass": "round-state-counts"}, "ops": c} for c in chunks]


def _manual(rng):
    mv, rw, lo = pools.rand_board(rng)
    return {"moves": enc(mv), "rewards": enc(rw), "loose": enc(lo),
            "rb": pools.pct(rng), "lb": pools.pct(rng), "tb": pools.pct(rng)}


def _gen_marathon(rng):
    opl = []
    for _ in range(rng.randint(60, 120)):
        p = pools.gen_params(rng, "tiny")
        p.update(width=rng.randint(1, 2), length=rng.randint(1, 2), seed=rng.randint(0, 5))
        opl.append({"op": "gen_cli", "params": p, "same_process": True, "solve": False, "entropy": rng.randint(0, 2 ** 32)})
    return {"cfg": {"klass": "marathon", "fd_spare": 48}, "ops": opl}


def gen(rng, tier, ctx):
    if rng.random() < 0.02:
        return _gen_marathon(rng)
    klass = rng.choices(["plain", "faulty"], [0.5, 0.5])[0]
    classes = THOROUGH_CLASSES if tier == "thorough" else QUICK_CLASSES
    psets = []
    for _ in range(rng.randint(1, 3)):
        cls = rng.choices(*classes)[0]
        p = pools.gen_params(rng, cls)
        if rng.random() < 0.05:
            p["max_reward"] = rng.choice([1022, 1023, 1024, 5000])
        psets.append(p)
    manual = _manual(rng)
    opl = []
    for _ in range(rng.randint(2, 7 if tier == "thorough" else 5)):
        r = rng.random()
        if r < 0.2:
            base = {"op": "gen_manual", "board": manual if rng.random() < 0.6 else _manual(rng)}
        else:
            p = dict(rng.choice(psets))
            if rng.random() < 0.25:
                # a different board that maps to the same file name class (other seed digits kept) or same name
                p["tb"] = rng.choice([p["tb"], pools.pct(rng)])
            base = {"op": "gen_cli", "params": p}
        base["entropy"] = rng.randint(0, 2 ** 32)
        base["solve"] = rng.random() < 0.7
        if base["op"] == "gen_cli" and base["params"]["width"] * base["params"]["length"] > 150:
            base["solve"] = rng.random() < 0.25     # tall/wide boards: minutes per file; mostly load + structure
        if rng.random() < (0.5 if base["op"] == "gen_manual" else 0.2):
            base["same_process"] = True     # long-lived driver process calling the entry point repeatedly
        if rng.random() < 0.3:
            opl.append({"op": "plant", "for": dict(base), "kind": rng.choice(["longer", "torn", "garbage"]),
                        "seed": rng.randint(0, 999)})
        if klass == "faulty":
            env = common.gen_env(rng, True)
            if env:
                base["env"] = env
            f = rng.random()
            if f < 0.25:
                on = rng.choice(["open", "write", "write", "write", "close"])
                base["fs_faults"] = [{"on": on, "mode": "w", "nth": 1 if on != "write" else rng.randint(1, 30),
                                      "errno": rng.choice(["ENOSPC", "EIO", "EACCES", "EROFS"]),
                                      "partial": rng.choice([0, 0.5])}]
            elif f < 0.5:
                base["interrupt"] = {"frac": rng.random(), "phase": rng.choice(["write", "write", "any"])}
                r2 = rng.random()
                if r2 < 0.4:
                    base["kill"] = {"keep": rng.choice([0.0, rng.random(), 1.0])}
                elif r2 < 0.65:
                    base["interrupt"]["exc"] = "MemoryError"
        opl.append(base)
        if base.get("fs_faults") or base.get("interrupt"):
            clean = {k: v for k, v in base.items() if k not in ("fs_faults", "interrupt", "kill")}
            clean["solve"] = True
            opl.append(clean)
        if rng.random() < 0.1:
            opl.append({"op": "restart", "entropy": rng.randint(0, 2 ** 32)})
    cfg = {"klass": klass}
    if rng.random() < 0.12:
        cfg["locale"] = rng.choice(["cp1252", "ascii", "latin-1"])      # default text encoding of the machine
    if rng.random() < 0.15:
        # two generator runs at the same time in this folder (a parallel parameter sweep)
        small = [dict(q, width=min(q["width"], 4), length=min(q["length"], 4)) for q in psets]
        opl.insert(rng.randrange(len(opl) + 1), genops.make_pair(rng, rng.choice(small), rng.choice(small)))
    return {"cfg": cfg, "ops": opl}


def readable(spec):
    out = []
    for o in spec["ops"]:
        if o["op"] == "gen_manual":
            b = o["board"]
            out.append("gen_manual moves=%r rewards=%r loose=%r rb=%r lb=%r tb=%r %s" % (
                dec(b["moves"]), dec(b["rewards"]), dec(b["loose"]), b["rb"], b["lb"], b["tb"],
                {k: v for k, v in o.items() if k not in ("op", "board")}))
        elif o["op"] == "gen_cli":
            out.append("python roberta_generator.py %s   %s" % (" ".join(ops.gen_argv(o["params"])[1:]),
                                                                  {k: v for k, v in o.items() if k not in ("op", "params")}))
        else:
            out.append(repr(o))
    return {"ops": out}


def simplify(spec):
    yield from common.simplify_env(spec)
    ops_ = spec["ops"]
    for i, op in enumerate(ops_):
        if op["op"] == "gen_cli":
            p = op["params"]
            for key, small in (("width", 1), ("length", 1), ("max_reward", 1), ("seed", 0)):
                if p[key] != small:
                    for val in {small, max(small, p[key] // 2)}:
                        if val != p[key]:
                            yield dict(spec, ops=ops_[:i] + [dict(op, params=dict(p, **{key: val}))] + ops_[i + 1:])
            for key in ("rb", "lb", "tb", "lt"):
                if p[key] != 0.5:
                    yield dict(spec, ops=ops_[:i] + [dict(op, params=dict(p, **{key: 0.5}))] + ops_[i + 1:])
            if p.get("force_down"):
                yield dict(spec, ops=ops_[:i] + [dict(op, params=dict(p, force_down=False))] + ops_[i + 1:])


def _solvable_range(op):
    if op["op"] == "gen_manual":
        ps = [op["board"][k] for k in ("rb", "lb", "tb")]
    else:
        ps = [op["params"][k] for k in ("rb", "lb", "tb")]
    return all(0.01 <= p <= 0.99 for p in ps)


def _size(op):
    if op["op"] == "gen_manual":
        mv = dec(op["board"]["moves"])
        return len(mv) * len(mv[0])
    return op["params"]["width"] * op["params"]["length"]


def execute(spec, w, ctx):
    events, states, discards = [], [], {}
    res = {"events": events, "states": states, "discards": discards, "violation": None, "known": []}
    nontrivial = False
    shapes = []
    written = {}      # rel path -> canon of the op that last wrote it
    w.restart(0)
    w.fs.encoding = spec.get("cfg", {}).get("locale") or "utf-8"
    if w.fs.encoding != "utf-8":
        w.fired("locale-" + w.fs.encoding)

    def fail(v):
        k = ctx.known_match(ID, v)
        if k is not None:
            res["known"].append(v)
            return False
        res["violation"] = v
        return True

    for i_op, op in enumerate(spec["ops"]):
        kind = op["op"]
        if kind == "restart":
            w.restart(op.get("entropy", 0))
            continue
        if kind == "plant":
            tgt = op["for"]
            r = genops.ref_gen(ctx, tgt)
            if r["status"] != "ok" or len(r["files"]) != 1:
                continue
            rel, data = next(iter(r["files"].items()))
            rng = random.Random(op.get("seed", 0))
            text = data             # bytes: whatever an earlier run or another tool left there
            if op["kind"] == "longer":
                text = text + b"\n# stale tail\n" + text * rng.randint(1, 3)
            elif op["kind"] == "torn":
                text = text[: rng.randint(0, max(0, len(text) - 1))]
            else:
                text = bytes(rng.randint(32, 126) for _ in range(rng.randint(len(text), 2 * len(text) + 10)))
            w.fs.write_bytes(rel, text)
            w.fired("planted-" + op["kind"])
            events.append([i_op, "plant", rel, op["kind"], len(text)])
            shapes.append("p" + op["kind"][0])
            continue
        if kind == "gen_pair":
            out_a, res_b, before_p, after_p = genops.run_gen_pair(w, op)
            events.append([i_op, "gen_pair", out_a["status"], res_b["status"], res_b.get("trace")])
            shapes.append("P")
            pb_ = genops.pair_problem(ctx, op, out_a, res_b, before_p, after_p)
            if pb_ is not None:
                if fail(viol("I11.1", i_op, pb_[1], pb_[0])):
                    break
            else:
                nontrivial = True
                for k_ in genops.game_files([k for k in after_p if before_p.get(k) != after_p.get(k)]):
                    written[k_] = True
            continue
        if kind not in ("gen_cli", "gen_manual"):
            continue
        cfg = common.env_cfg(op)
        if op.get("fs_faults"):
            cfg["fs_faults"] = op["fs_faults"]
        intr = op.get("interrupt")
        if intr:
            c0 = dict(cfg, fine=True)
            c0.pop("fs_faults", None)
            out0, before0, after0, changed0, wopens0 = genops.run_gen(w, op, c0)
            v = _judge(i_op, op, out0, before0, after0, changed0, wopens0, w, ctx, events, states, True, False, written, res["known"])
            if v is not None and fail(v):
                break
            total = out0["steps"]
            lo = 1
            if intr.get("phase") == "write":
                opens = [e[4] for e in out0["fs_events"] if genops.is_write_open(e)]
                if opens:
                    lo = opens[0]
            cfg["interrupt"] = {"at": common.interrupt_at(intr, out0, lo), "exc": intr.get("exc")}
            if op.get("kill"):
                cfg["kill"] = op["kill"]
        out, before, after, changed, wopens = genops.run_gen(w, op, cfg)
        faulted = bool(out["fs_fired"]) or out["status"] == "interrupt" or bool(out.get("injected"))
        shapes.append(("m" if kind == "gen_manual" else "g") + ("F" if faulted else "") + ("s" if op.get("solve") else ""))
        if op.get("same_process"):
            w.fired("same-process-call")
            if out["status"] == "interrupt" and op.get("kill"):
                w.restart(op.get("entropy", 0))      # a killed process does not continue
        if out["status"] == "interrupt":
            w.probe("interrupt-in:" + str(out.get("site", "?")).split(":")[0])
            if changed:
                w.probe("torn-file-left-behind")
        overwrite = bool(wopens) and wopens[0] in before
        v = _judge(i_op, op, out, before, after, changed, wopens, w, ctx, events, states, not faulted,
                   bool(op.get("solve")), written, res["known"])
        if out["status"] == "ok" and (overwrite or _size(op) > 9 or faulted) and op.get("solve"):
            nontrivial = True
        if faulted:
            nontrivial = True
        if overwrite and out["status"] == "ok":
            w.probe("overwrote-existing-file")
        if v is not None and fail(v):
            break
    res["nontrivial"] = nontrivial
    res["signature"] = h("|".join(shapes) + "#" + h(canon([o.get("params") or o.get("board") for o in spec["ops"]])) +
                         "#" + ",".join(sorted(w.fault_counts)))
    return res


def _judge(i_op, op, out, before, after, changed, wopens, w, ctx, events, states, clean, solve, written, known):
    what = "manual entry point" if op["op"] == "gen_manual" else "`roberta_generator.py %s`" % " ".join(ops.gen_argv(op["params"])[1:])
    events.append([i_op, op["op"], out["status"], out["steps"], changed, out.get("etype"), out["fs_fired"], out.get("site")])
    if out["status"] != "ok":
        if clean:
            return viol("I11.1", i_op, "%s was accepted but did not finish: %s" % (what, genops.show(out)),
                        "generator-crashed", etype=out.get("etype"), at="generator")
        return None
    # I11.1: one file, under inputs/, nothing else touched
    paths = genops.game_files(wopens)
    if len(paths) != 1:
        return viol("I11.1", i_op, "%s produced the game files %s (all files produced: %s), expected exactly one under inputs/" % (
            what, paths, sorted(set(wopens))), "file-count")
    rel = paths[0]
    others = [c for c in changed if c != rel]
    clobbered = [c for c in others if c.startswith("inputs/") and c.endswith(".py") and not c.rsplit("/", 1)[-1].startswith(".")]
    if clobbered:
        return viol("I11.1", i_op, "%s also changed %s" % (what, clobbered), "stray-write")
    if others:
        w.probe("auxiliary-file-written")       # a cache or log beside the game file is not a second game file
    data = after[rel]
    states.append(h(data))
    # self-model: identical to what the same command writes on an empty disk
    r = genops.ref_gen(ctx, op)
    if r["status"] == "ok" and len(r["files"]) == 1:
        rrel, rdata = next(iter(r["files"].items()))
        if rdata != data:
            k = 0
            while k < min(len(data), len(rdata)) and data[k] == rdata[k]:
                k += 1
            return viol("I11.1", i_op, "%s over an existing %s left %d bytes, a fresh directory gets %d (first difference at byte %d: %r vs %r)" % (
                what, rel, len(data), len(rdata), k, data[k:k + 40], rdata[k:k + 40]),
                "silent-failure:differs-from-fresh" if not clean else "differs-from-fresh")
    # reader
    if not op.get("same_process"):
        w.restart(1)        # the solver is another process; same_process: a driver script reads it back itself
    rd = ops.read_file(w, rel, {"step_cap": 10 ** 7})
    if rd["status"] != "ok":
        return viol("I11.1", i_op, "the solver's reader cannot load %s written by %s: %s" % (rel, what, genops.show(rd)),
                    "unloadable" if clean else "silent-failure:unloadable")
    games = rd["value"]
    if not isinstance(games, dict) or sorted(games) != ["game_a", "game_b", "game_c"] or len(games) != 3:
        return viol("I11.1", i_op, "%s loads to keys %s, expected game_a, game_b, game_c" % (
            rel, list(games) if isinstance(games, dict) else type(games).__name__), "wrong-games")
    # I11.2 structure + the solver's own validation
    for name in ("game_a", "game_b", "game_c"):
        g = games[name]
        sv = genops.structure_violation(name, g)
        if sv is not None:
            return viol("I11.2", i_op, "%s: %s" % (what, sv[1]), "structure:" + sv[0], game=name)
        val = w.run_op(lambda g=g: _validate(g), {"step_cap": 10 ** 7})
        if val["status"] != "ok":
            return viol("I11.2", i_op, "%s: %s fails the solver's validation: %s" % (what, name, genops.show(val)),
                        "validation", game=name)
    w.probe("files-loaded-and-validated")
    written[rel] = canon(op.get("params") or op.get("board"))
    # I11.3 solve or no-solution
    if solve:
        if not _solvable_range(op):
            w.probe("solve-skipped-extreme-probability")
            return None
        conclusive, total_steps, expect = True, 0, {}
        for name in ("game_a", "game_b", "game_c"):
            e = enc({k: games[name][k] for k in ops.FIELDS})
            for prune in (True, False):
                s = common.ref_solve(ctx, e, prune)
                st = s["status"]
                total_steps += s.get("steps") or 0
                if st not in ("ok", "exc"):
                    conclusive = False
                if prune:
                    expect[name] = st
                if st == "ok":
                    val = dec(s["value"])
                    n = len(games[name]["players"])
                    if not (isinstance(val, tuple) and len(val) == 8 and all(len(val[k]) == n for k in (0, 1, 2, 3, 6, 7))):
                        return viol("I11.3", i_op, "%s %s prune=%s: incomplete result %s" % (what, name, prune, short(val, 300)),
                                    "incomplete-result", game=name)
                    w.probe("games-solved")
                elif st == "exc" and s["etype"] == "ValueError" and "no solution" in s["emsg"] and prune:
                    w.probe("games-reported-no-solution")
                elif st == "inconclusive":
                    w.probe("solve-inconclusive-slow")
                elif st == "divergent":
                    info = s["info"]
                    mv = info.get("moving")
                    v = viol("I11.3", i_op, "%s: solve of %s (prune=%s, %d states) never terminates: after %s sweeps of %s the per-sweep "
                             "change is constant at %r; quantities still moving: %s" % (
                                 what, name, prune, len(games[name]["players"]), info.get("sweeps"), info.get("site"),
                                 info.get("diff"), mv),
                             "divergent", site=info.get("site"), moving=",".join(mv) if mv is not None else "?", game=name)
                    if ctx.known_match(ID, v) is None:
                        return v
                    known.append(v)     # listed finding: report it, keep checking the other games
                else:
                    return viol("I11.3", i_op, "%s: solve of %s (prune=%s) fails with %s" % (
                        what, name, prune, "%s(%r)" % (s.get("etype"), s.get("emsg"))), "solve-error",
                        etype=s.get("etype"), game=name)
        # the pipeline a user runs: `conditionalrewards.py -f <generated file>` in another process,
        # under whatever the wall clock does meanwhile
        if conclusive and total_steps <= 60000:
            ent = op.get("entropy", 0)
            clock = (op.get("env") or {}).get("clock") or {
                "mode": ("steady", "frozen", "tiny", "backward", "jump")[ent % 5], "seed": ent}
            cap = {}
            out = ops.solver_cli(w, rel, False, None, {"clock": clock, "step_cap": 20 * total_steps + 200000}, ent, cap)
            events.append([i_op, "solver_cli", out["status"], out["steps"], clock["mode"]])
            if out["status"] != "ok":
                return viol("I11.3", i_op, "%s, then `conditionalrewards.py -f %s` (clock: %s): the solver run did not finish: %s" % (
                    what, rel, clock["mode"], genops.show(out)), "solver-cli-failed", etype=out.get("etype"))
            ret = cap.get("ret_obj")
            if isinstance(ret, dict):
                for name in ("game_a", "game_b", "game_c"):
                    e1 = ret.get(name)
                    msg = str(e1.get("msg")) if isinstance(e1, dict) else None
                    if expect[name] == "ok":
                        good = isinstance(e1, dict) and e1.get("rewards") is not None and e1.get("probabilities") is not None
                    else:
                        good = msg is not None and "no solution" in msg
                    if not good:
                        return viol("I11.3", i_op, "%s, then the solver CLI: %s is neither solved nor reported as having no solution "
                                    "(alone: %s; entry: %s)" % (what, name, expect[name], short(e1, 300)), "solver-cli-entry", game=name)
                w.probe("solver-cli-runs-checked")
    return None


def _validate(g):
    tad = proc.mod("tad")
    sg = tad.StochasticGame(**{k: g[k] for k in ops.FIELDS})
    sg.check_game()
    return len(sg.init_states())
