"""The simulated world one run lives in: file system, clock, PRNG entropy,
output sinks, stack headroom, and the operation wrapper that arms the step
clock and classifies every outcome.

Every choice made here comes from explicit fields of the operation being
executed (seeds, fractions, counts) - never from a hidden PRNG or a real
clock - so that executing an op list is a pure function of the list and the
repository code.
"""
import builtins
import errno as _errno
import gc
import io
import os
import random as _random
import shutil
import sys
import time as _time
import weakref
import atexit as _atexit
import signal as _signal
import warnings as _warnings

from . import proc
from . import threads as _threads
from .steps import SimInterrupt, Divergent, Inconclusive

_REAL_OPEN = io.open
_REAL_TIME = {k: getattr(_time, k) for k in ("time", "monotonic", "perf_counter", "time_ns")}

ERRNOS = {
    "ENOENT": _errno.ENOENT, "EACCES": _errno.EACCES, "ENOSPC": _errno.ENOSPC,
    "EIO": _errno.EIO, "EROFS": _errno.EROFS, "EMFILE": _errno.EMFILE,
}


# ---------------------------------------------------------------------------
# file system
# ---------------------------------------------------------------------------

class _SimFile:
    """Proxy around a real file on the scratch tmpfs.

    Writes are held back in `pending` (the user-space/page-cache buffer) and
    reach the real file on flush/close.  On a simulated kill only a seeded
    prefix of the pending data survives (torn write).
    """

    def __init__(self, fs, real, rel, mode):
        self._fs = fs
        self._real = real
        self._rel = rel
        self._mode = mode
        self._writing = any(c in mode for c in "wax+")
        self._pending = []
        self._closed = False
        self._raw = False           # opened with buffering=0: write() is the system call, it may be short

    # -- writes
    def write(self, s):
        fs = self._fs
        fs._event("write", self._rel, len(s))
        flt = fs._fault("write", self._rel, self._mode)
        if flt is not None:
            part = flt.get("partial")
            if self._raw and len(s) > 1:
                # an unbuffered write that runs out of room stores what still fits and says how much that was
                # (the error comes with the *next* call): a short write, not an exception
                k = max(1, int(len(s) * (part or 0.5)))
                self._pending.append(s[:k])
                fs.fired[-1] = fs.fired[-1] + ":short"
                return k
            if part:
                k = int(len(s) * part)
                self._pending.append(s[:k])
            raise OSError(ERRNOS[flt["errno"]], os.strerror(ERRNOS[flt["errno"]]))
        self._pending.append(s)
        return len(s)

    def writelines(self, lines):
        for ln in lines:
            self.write(ln)

    def _drain(self, frac=None):
        if not self._pending:
            return
        data = self._pending[0][:0].join(self._pending)
        self._pending = []
        if frac is not None:
            data = data[: int(len(data) * frac)]
        self._real.write(data)
        self._real.flush()

    def flush(self):
        self._fs._sync("flush " + self._rel)
        self._fs._event("flush", self._rel, 0)
        if self._fs.killed:
            return
        self._drain()

    def close(self):
        if self._closed:
            return
        fs = self._fs
        fs._sync("close " + self._rel)
        fs._event("close", self._rel, 0)
        self._closed = True
        try:
            if fs.killed:
                if self._writing:
                    self._drain(fs.kill_keep)
                return
            flt = fs._fault("close", self._rel, self._mode) if self._writing else None
            if flt is not None:
                self._drain(flt.get("partial", 0.0))
                raise OSError(ERRNOS[flt["errno"]], os.strerror(ERRNOS[flt["errno"]]))
            self._drain()
        finally:
            self._real.close()
            fs.open_files.discard(self)
            if self._writing:
                fs.stamp(self._rel)

    # -- reads
    def read(self, *a):
        fs = self._fs
        fs._sync("read " + self._rel)
        fs._event("read", self._rel, 0)
        flt = fs._fault("read", self._rel, self._mode)
        if flt is not None:
            raise OSError(ERRNOS[flt["errno"]], os.strerror(ERRNOS[flt["errno"]]))
        return self._real.read(*a)

    def readline(self, *a):
        self._fs._event("read", self._rel, 0)
        return self._real.readline(*a)

    def readlines(self, *a):
        self._fs._event("read", self._rel, 0)
        return self._real.readlines(*a)

    def __iter__(self):
        self._fs._event("read", self._rel, 0)
        return iter(self._real)

    def __enter__(self):
        return self

    def __exit__(self, *exc):
        self.close()
        return False

    @property
    def closed(self):
        return self._closed

    def __del__(self):
        # CPython flushes and closes a file object when it is deallocated
        try:
            if not self._closed:
                self.close()
        except Exception:
            pass

    def __getattr__(self, name):
        return getattr(self._real, name)


def _decide(seed, idx, p):
    """Stateless seeded coin: does the invocation holding the token hand it over at global event idx?"""
    x = (seed * 0x9E3779B97F4A7C15 + idx * 0xBF58476D1CE4E5B9 + 0x94D049BB133111EB) & 0xFFFFFFFFFFFFFFFF
    x ^= x >> 31
    x = (x * 0xD6E8FEB86659FD93) & 0xFFFFFFFFFFFFFFFF
    x ^= x >> 32
    return (x % 10000) < int(p * 10000)


class Coord:
    """Two invocations of the tool running at the same time on one simulated disk (two real processes: they
    share nothing but the disk).  Their file-system events are totally ordered by a token: only the holder may
    perform one; at each event a seeded coin decides whether the other invocation gets the token next.  The
    schedule is a pure function of (seed, the two event sequences)."""

    def __init__(self, sock, role, seed, p):
        self.sock = sock
        self.role = role            # "A" = this (parent) process, "B" = the forked partner
        self.seed = seed
        self.p = p
        self.have = role == "A"
        self.idx = 0
        self.other_done = False
        self.finished = False
        self.switches = 0
        self.child_pid = None
        self.result_fd = None
        self.log = []               # (global event number, role, what) for this side's events

    def _send(self, kind):
        try:
            self.sock.sendall(kind + self.idx.to_bytes(8, "little"))
        except OSError:
            self.other_done = True

    def _wait(self):
        buf = b""
        while len(buf) < 9:
            try:
                c = self.sock.recv(9 - len(buf))
            except OSError:
                c = b""
            if not c:
                self.other_done = True
                self.have = True
                return
            buf += c
        self.idx = max(self.idx, int.from_bytes(buf[1:], "little"))
        self.have = True
        if buf[:1] == b"D":
            self.other_done = True

    def point(self, what=""):
        if self.finished:
            return
        if not self.have:
            self._wait()
        self.idx += 1
        if len(self.log) < 300:
            self.log.append((self.idx, self.role, what))
        if not self.other_done and _decide(self.seed, self.idx, self.p):
            self.switches += 1
            self._send(b"T")
            self.have = False
            self._wait()

    def finish(self):
        if self.finished:
            return
        self.finished = True
        if not self.other_done:
            self._send(b"D")

    # -- parent side
    def collect(self):
        """Outcome of the partner invocation (blocks until it has ended)."""
        import pickle
        self.finish()
        chunks = []
        while True:
            c = os.read(self.result_fd, 1 << 16)
            if not c:
                break
            chunks.append(c)
        os.close(self.result_fd)
        try:
            os.waitpid(self.child_pid, 0)
        except OSError:
            pass
        try:
            self.sock.close()
        except OSError:
            pass
        data = b"".join(chunks)
        if not data:
            raise proc.HarnessError("partner invocation died without a result")
        return pickle.loads(data)

    # -- partner side
    def child_exit(self, summary):
        import pickle
        self.finish()
        try:
            data = pickle.dumps(summary, protocol=4)
            off = 0
            while off < len(data):
                off += os.write(self.result_fd, data[off:off + (1 << 16)])
        finally:
            os._exit(0)


class SimFS:
    def __init__(self, root, stepclock=None):
        self.root = root
        self.stepclock = stepclock
        self.seq = 0
        self.events = []
        self.faults = []
        self.fault_counts = {}
        self.fired = []
        self.open_files = weakref.WeakSet()   # file objects the process has not closed (yet)
        self.killed = False
        self.kill_keep = 0.0
        self.escapes = []
        self.encoding = "utf-8"     # the simulated locale's default text encoding
        self.clock = None           # the op's SimClock (file timestamps come from the simulated clock)
        self.disk_time = 1.7e9      # simulated time of the last timestamp handed out
        self.coord = None           # set while a partner invocation runs at the same time (see Coord)
        self.mounts = ()            # top-level folders of the disk that are file systems of their own (EXDEV)

    def _sync(self, what=""):
        """A file-system event is about to happen: with a partner invocation running, wait for the token."""
        c = self.coord
        if c is not None:
            c.point(what)

    def stamp(self, rel, advance=True):
        """Give the file the simulated modification time (the real tmpfs mtime is the
        only place os.stat can read it from, so it is set there)."""
        if self.clock is not None:
            t = self.clock.now
        else:
            if advance:
                self.disk_time += 0.25
            t = self.disk_time
        self.disk_time = t
        try:
            ns = int(t * 1e9)
            os.utime(os.path.join(self.root, rel), ns=(ns, ns))
        except OSError:
            pass

    def _rel(self, path):
        try:
            p = os.path.realpath(os.path.join(os.getcwd(), os.fspath(path)))
        except TypeError:
            return None
        if p == self.root or p.startswith(self.root + os.sep):
            return os.path.relpath(p, self.root)
        return None

    def _event(self, kind, rel, n):
        self.seq += 1
        sc = self.stepclock
        self.events.append((self.seq, kind, rel, n, sc.steps if sc is not None else 0))

    def _fault(self, on, rel, mode):
        """Return the fault that fires on this call, if any (n-th matching call)."""
        for i, f in enumerate(self.faults):
            if f["on"] != on:
                continue
            want = f.get("mode", "w")
            is_w = any(c in mode for c in "wax+")
            if (want == "w") != is_w:
                continue
            if f.get("path") and f["path"] != rel:
                continue
            k = self.fault_counts.get(i, 0) + 1
            self.fault_counts[i] = k
            if k == f.get("nth", 1):
                self.fired.append("%s:%s" % (on, f["errno"]))
                return f
        return None

    def open(self, file, mode="r", *a, **kw):
        if isinstance(file, int):
            return _REAL_OPEN(file, mode, *a, **kw)
        rel = self._rel(file)
        if rel is None:
            if any(c in mode for c in "wax+") and not os.fspath(file).startswith(("/dev/", "/proc/")):
                # the code under test tries to write outside the simulated disk: never let it
                # touch the real machine; it sees a read-only file system
                self._event("escape:" + mode, os.fspath(file), 0)
                self.escapes.append(os.fspath(file))
                raise OSError(ERRNOS["EROFS"], os.strerror(ERRNOS["EROFS"]), os.fspath(file))
            # reads outside the simulated disk (interpreter internals, the repo's own files): untouched
            return _REAL_OPEN(file, mode, *a, **kw)
        self._sync("open:%s %s" % (mode, rel))
        self._event("open:" + mode, rel, 0)
        flt = self._fault("open", rel, mode)
        if flt is not None:
            raise OSError(ERRNOS[flt["errno"]], os.strerror(ERRNOS[flt["errno"]]), os.fspath(file))
        if "b" not in mode and len(a) >= 2 and a[1] in (None, "locale"):
            a = (a[0], self.encoding) + tuple(a[2:])
        if "b" not in mode and kw.get("encoding", "x") in (None, "locale"):
            kw["encoding"] = self.encoding
        if "b" not in mode and len(a) < 2 and "encoding" not in kw:
            # text mode without an explicit encoding: the locale decides (the harness itself runs in
            # UTF-8 mode, so the simulated locale is applied here)
            kw["encoding"] = self.encoding
        real = _REAL_OPEN(file, mode, *a, **kw)
        sf = _SimFile(self, real, rel, mode)
        if "b" in mode and ((len(a) >= 1 and a[0] == 0) or kw.get("buffering") == 0):
            sf._raw = True
        self.open_files.add(sf)
        return sf

    def syscall(self, kind, real_fn, path, *a, **kw):
        """os.remove / os.unlink / os.mkdir / os.rmdir seen by the simulated disk: logged, failable, and
        without effect once the process has been killed."""
        rel = self._rel(path) if isinstance(path, (str, bytes, os.PathLike)) else None
        if rel is None:
            return real_fn(path, *a, **kw)
        if self.killed:
            return None
        self._sync("%s %s" % (kind, rel))
        self._event(kind, rel, 0)
        flt = self._fault(kind, rel, "w")
        if flt is not None:
            raise OSError(ERRNOS[flt["errno"]], os.strerror(ERRNOS[flt["errno"]]), os.fspath(path))
        return real_fn(path, *a, **kw)

    def os_open(self, real_fn, path, flags, *a, **kw):
        """os.open on the simulated disk: logged like open() and failable like it (data written through the
        descriptor goes straight to the file - there is no user-space buffer to lose)."""
        rel = self._rel(path) if isinstance(path, (str, bytes, os.PathLike)) and kw.get("dir_fd") is None else None
        if rel is None:
            return real_fn(path, flags, *a, **kw)
        writing = bool(flags & (os.O_WRONLY | os.O_RDWR | os.O_CREAT | os.O_TRUNC | os.O_APPEND))
        mode = "w" if writing else "r"
        self._sync("os.open:%s %s" % (mode, rel))
        self._event("open:" + mode + ":os", rel, 0)
        flt = self._fault("open", rel, mode)
        if flt is not None:
            raise OSError(ERRNOS[flt["errno"]], os.strerror(ERRNOS[flt["errno"]]), os.fspath(path))
        return real_fn(path, flags, *a, **kw)

    def rename(self, real_fn, src, dst, *a, **kw):
        """os.rename / os.replace seen by the simulated disk (atomic replace of a finished temp file)."""
        rs, rd = self._rel(src), self._rel(dst)
        if (rs is not None or rd is not None):
            if self.killed:
                return None
            self._sync("rename %s -> %s" % (rs, rd))
            if self.mounts:
                ms = (rs or "").split(os.sep)[0] if rs is not None else None
                md = (rd or "").split(os.sep)[0] if rd is not None else None
                ms = ms if ms in self.mounts else ""
                md = md if md in self.mounts else ""
                if ms != md:
                    self._event("rename-across-file-systems", rs, 0)
                    raise OSError(_errno.EXDEV, os.strerror(_errno.EXDEV), os.fspath(src), None, os.fspath(dst))
            flt = self._fault("rename", rd if rd is not None else rs, "w")
            if flt is not None:
                raise OSError(ERRNOS[flt["errno"]], os.strerror(ERRNOS[flt["errno"]]), os.fspath(src))
        res = real_fn(src, dst, *a, **kw)
        if rs is not None or rd is not None:
            self._event("rename", rs, 0)
            self.events[-1] = self.events[-1][:3] + (rd,) + self.events[-1][4:]
            if rd is not None:
                self.stamp(rd)
        return res

    def begin_op(self, faults):
        self.events = []
        self.faults = list(faults or [])
        self.fault_counts = {}
        self.fired = []
        self.killed = False
        self.kill_keep = 0.0

    def end_op(self, process_ends=False):
        """After an op: file objects that became garbage have been finalised by
        their __del__ (flush + close, as CPython does).  Objects the process still
        references stay open - and their buffered data stays off the disk - until
        the process ends (interpreter shutdown flushes them) or is killed (only a
        seeded prefix of the pending data survives)."""
        if not (process_ends or self.killed):
            return
        for sf in list(self.open_files):
            try:
                sf.close()
            except OSError:
                pass
        self.open_files = weakref.WeakSet()
        self.killed = False

    def snapshot(self):
        out = {}
        for d, _dirs, files in os.walk(self.root):
            for fn in files:
                p = os.path.join(d, fn)
                with _REAL_OPEN(p, "rb") as f:
                    out[os.path.relpath(p, self.root)] = f.read()
        return out

    def write_text(self, rel, text, advance=True):
        """The client (editor, other tool) writes a file; advance=False: within the
        timestamp granularity of the previous write (coarse mtime / stopped clock)."""
        p = os.path.join(self.root, rel)
        os.makedirs(os.path.dirname(p), exist_ok=True)
        keep = None
        if not advance:
            try:
                keep = os.stat(p).st_mtime_ns       # coarse-granularity file system / `cp -p` / `rsync -t`
            except OSError:
                keep = None
        with _REAL_OPEN(p, "w", encoding=self.encoding, newline="") as f:
            f.write(text)       # the client's editor saves in the locale's encoding
        if keep is not None:
            os.utime(p, ns=(keep, keep))
        else:
            self.stamp(rel, advance)

    def dirs(self):
        out = set()
        for d, dirs_, _files in os.walk(self.root):
            for n in dirs_:
                out.add(os.path.relpath(os.path.join(d, n), self.root))
        return out

    def symlink(self, rel, target_rel):
        p = os.path.join(self.root, rel)
        os.makedirs(os.path.dirname(p), exist_ok=True)
        if os.path.lexists(p):
            os.remove(p)
        os.symlink(os.path.relpath(os.path.join(self.root, target_rel), os.path.dirname(p)), p)

    def write_bytes(self, rel, data, advance=True):
        p = os.path.join(self.root, rel)
        os.makedirs(os.path.dirname(p), exist_ok=True)
        with _REAL_OPEN(p, "wb") as f:
            f.write(data)
        self.stamp(rel, advance)

    def encodable(self, text):
        try:
            text.encode(self.encoding)
            return True
        except UnicodeEncodeError:
            return False

    def read_text(self, rel):
        return self.read_bytes(rel).decode(self.encoding)

    def read_bytes(self, rel):
        with _REAL_OPEN(os.path.join(self.root, rel), "rb") as f:
            return f.read()

    def remove(self, rel):
        os.remove(os.path.join(self.root, rel))


# ---------------------------------------------------------------------------
# clock
# ---------------------------------------------------------------------------

class SimClock:
    """Virtual wall clock; every read advances it by a seeded delta."""

    MODES = ("steady", "tiny", "frozen", "backward", "jump")

    def __init__(self, mode="steady", seed=0, repo_files=(), start=None):
        self.mode = mode
        self.rng = _random.Random(seed)
        self.now = (1.7e9 + self.rng.random() * 1e6) if start is None else start
        self.start = self.now
        self.reads = []        # values handed to repository code, in order
        self.n_reads = 0
        self.repo_files = repo_files
        self.odd = 0

    def _advance(self):
        r = self.rng
        m = self.mode
        if m == "steady":
            d = r.uniform(1e-5, 2e-2)
        elif m == "tiny":
            d = r.choice((1e-9, 1e-7, 2.384185791015625e-07, 0.0))
        elif m == "frozen":
            d = 0.0
        elif m == "backward":
            d = r.uniform(1e-5, 1e-2)
            if r.random() < 0.3:
                d = -r.uniform(1e-3, 3600.0)
                self.odd += 1
        elif m == "jump":
            d = r.uniform(1e-5, 1e-2)
            if r.random() < 0.3:
                d = r.uniform(1e4, 1e9)
                self.odd += 1
        else:
            d = 1e-3
        self.now += d

    def time(self):
        v = self.now
        self.n_reads += 1
        f = sys._getframe(1)
        if f.f_code.co_filename in self.repo_files:
            self.reads.append(v)
        self._advance()
        return v

    def time_ns(self):
        return int(self.time() * 1e9)


# ---------------------------------------------------------------------------
# sinks
# ---------------------------------------------------------------------------

class Sink(io.TextIOBase):
    def __init__(self):
        super().__init__()
        self.n = 0
        self.parts = []

    def writable(self):
        return True

    def write(self, s):
        self.n += len(s)
        if self.n < 20000:
            self.parts.append(s)
        return len(s)

    def text(self):
        return "".join(self.parts)


# ---------------------------------------------------------------------------
# world
# ---------------------------------------------------------------------------

class World:
    """One simulated machine: a scratch disk, one (restartable) process."""

    DEFAULT_SWEEP_CAP = 20000
    DEFAULT_STEP_CAP = 60_000_000

    def __init__(self, snap, stepclock, ref, tag):
        self.snap = snap
        self.stepclock = stepclock
        self.ref = ref
        base = "/dev/shm" if os.path.isdir("/dev/shm") else "/tmp"
        # (a directory name with a dot in it is as legal a place to work in as any: `john.doe`, `boards.v2`)
        self.root = os.path.realpath(os.path.join(base, "cr-sim-%d-%s" % (os.getpid(), tag)))
        if os.path.exists(self.root):
            shutil.rmtree(self.root)
        os.makedirs(os.path.join(self.root, "inputs"))
        os.makedirs(os.path.join(self.root, "outputs"))
        # the simulated user's home and temp directories live on the simulated disk too: a cache or history the
        # code keeps under ~ or in the temp dir survives restarts there exactly as on a real machine (and a
        # write to any *other* place outside the disk is refused, see SimFS.open)
        os.makedirs(os.path.join(self.root, ".home"))
        os.makedirs(os.path.join(self.root, ".tmp"))
        self._old_env = {k: os.environ.get(k) for k in ("HOME", "TMPDIR", "XDG_CACHE_HOME", "XDG_CONFIG_HOME", "XDG_DATA_HOME", "XDG_STATE_HOME")}
        os.environ["HOME"] = os.path.join(self.root, ".home")
        os.environ["TMPDIR"] = os.path.join(self.root, ".tmp")
        for k in ("XDG_CACHE_HOME", "XDG_CONFIG_HOME", "XDG_DATA_HOME", "XDG_STATE_HOME"):
            os.environ.pop(k, None)
        import tempfile as _tempfile
        _tempfile.tempdir = None
        self.prev_cwd = os.getcwd()
        os.chdir(self.root)
        self.fd_baseline = self._fds()
        self._old_nofile = None
        self.fs = SimFS(self.root, stepclock)
        proc.SCRIPT_DIR = self.root
        self.repo_files = frozenset(snap.paths.values())
        self.virtual_seconds = 0.0
        self.total_steps = 0
        self.fault_counts = {}
        self.probes = {}
        self.n_ops = 0
        # interpreter-wide state a real process starts with (restored at every simulated process start)
        import decimal as _decimal
        self._proc0 = {"reclimit": sys.getrecursionlimit(), "environ": dict(os.environ),
                       "decimal": _decimal.getcontext().copy(), "warnings": list(_warnings.filters),
                       "int_digits": sys.get_int_max_str_digits(), "gc": gc.isenabled(),
                       "path": list(sys.path)}
        self.atexit_stack = []      # callbacks the simulated process registered with atexit
        self.sig_handlers = {}      # signal handlers the simulated process installed
        self.threads = _threads.Seam()      # threads the simulated process starts run under a seeded scheduler
        self.sched_base = 0         # run-level seed of that scheduler (explicit in the run's cfg)
        self.threads_ever = False   # the code under test has started threads in this world
        self.restart(None)

    # -- bookkeeping
    def fired(self, kind, n=1):
        self.fault_counts[kind] = self.fault_counts.get(kind, 0) + n

    def probe(self, name, n=1):
        self.probes[name] = self.probes.get(name, 0) + n

    @staticmethod
    def _fds():
        try:
            return set(int(x) for x in os.listdir("/proc/self/fd"))
        except OSError:
            return set()

    def limit_descriptors(self, spare):
        """Resource limit of the simulated machine: only `spare` more descriptors than are open now."""
        import resource
        soft, hard = resource.getrlimit(resource.RLIMIT_NOFILE)
        self._old_nofile = (soft, hard)
        want = max(self._fds() | {0}) + 1 + int(spare)
        try:
            resource.setrlimit(resource.RLIMIT_NOFILE, (min(want, hard), hard))
            self.fired("descriptor-limit")
        except (ValueError, OSError):
            self._old_nofile = None

    def close(self):
        try:
            self._note_threads()
            self.threads.process_ends()
        except Exception:
            pass
        try:
            self.fs.end_op(process_ends=True)
        except Exception:
            pass
        if self._old_nofile is not None:
            import resource
            try:
                resource.setrlimit(resource.RLIMIT_NOFILE, self._old_nofile)
            except (ValueError, OSError):
                pass
        # descriptors the code under test leaked (os.open and friends) must not outlive the simulated process
        import gc as _gc
        _gc.collect()
        leaked = [fd for fd in self._fds() - self.fd_baseline]
        n_closed = 0
        for fd in leaked:
            try:
                os.close(fd)
                n_closed += 1
            except OSError:
                pass
        if n_closed:
            self.probe("leaked-descriptors-closed-at-process-end", n_closed)
        try:
            os.chdir(self.prev_cwd)
        except OSError:
            os.chdir("/")
        for k, v in self._old_env.items():
            if v is None:
                os.environ.pop(k, None)
            else:
                os.environ[k] = v
        import tempfile as _tempfile
        _tempfile.tempdir = None
        shutil.rmtree(self.root, ignore_errors=True)

    def restart(self, entropy):
        """Process boundary: only the disk survives."""
        if hasattr(self, "fs"):
            if self.atexit_stack:
                # the long-lived session process ends: its exit handlers run first (inside the simulated world)
                self.run_op(lambda: None, {"process_ends": True})
            gc.collect()
            self.fs.end_op(process_ends=True)
        self._reset_process_state()
        proc.restart()
        if entropy is not None:
            _random.seed(entropy)
            self.fired("prng-entropy")
        self.n_restarts = getattr(self, "n_restarts", -1) + 1

    def _reset_process_state(self):
        """What a brand-new interpreter has, whatever the previous simulated process did to this one."""
        import decimal as _decimal
        p0 = self._proc0
        self._note_threads()
        self.threads.process_ends()
        self.atexit_stack = []
        self.sig_handlers = {}
        if sys.getrecursionlimit() != p0["reclimit"]:
            self.probe("process-state-reset:recursionlimit")
            sys.setrecursionlimit(p0["reclimit"])
        if os.getcwd() != self.root:
            self.probe("process-state-reset:cwd")
            os.chdir(self.root)
        if dict(os.environ) != p0["environ"]:
            self.probe("process-state-reset:environ")
            for k in list(os.environ):
                if k not in p0["environ"]:
                    del os.environ[k]
            for k, v in p0["environ"].items():
                if os.environ.get(k) != v:
                    os.environ[k] = v
        _decimal.setcontext(p0["decimal"].copy())
        if list(_warnings.filters) != p0["warnings"]:
            self.probe("process-state-reset:warnings")
            _warnings.filters[:] = p0["warnings"]
            try:
                _warnings._filters_mutated()
            except AttributeError:
                pass
        if sys.get_int_max_str_digits() != p0["int_digits"]:
            self.probe("process-state-reset:int_max_str_digits")
            sys.set_int_max_str_digits(p0["int_digits"])
        if gc.isenabled() != p0["gc"]:
            self.probe("process-state-reset:gc")
            (gc.enable if p0["gc"] else gc.disable)()
        if sys.path != p0["path"]:
            self.probe("process-state-reset:sys.path")
            sys.path[:] = p0["path"]
        import tempfile as _tempfile
        _tempfile.tempdir = None

    def fork_partner(self, seed, p=0.3):
        """Start a second invocation of the tool that runs *at the same time* on this disk.  Returns a Coord in
        both processes: role "A" here, role "B" in the forked partner (which must end in coord.child_exit)."""
        import socket as _socket
        sa, sb = _socket.socketpair()
        r_fd, w_fd = os.pipe()
        sys.stdout.flush()
        sys.stderr.flush()
        pid = os.fork()
        if pid == 0:
            try:
                sa.close()
                os.close(r_fd)
                c = Coord(sb, "B", seed, p)
                c.result_fd = w_fd
                self.fs.coord = c
                self.ref = None             # the reference server belongs to the parent
                return c
            except BaseException:
                os._exit(3)
        sb.close()
        os.close(w_fd)
        c = Coord(sa, "A", seed, p)
        c.child_pid = pid
        c.result_fd = r_fd
        self.fs.coord = c
        self.fired("concurrent-invocation-pairs")
        return c

    def end_partner(self, coord):
        """Parent side: wait for the partner's outcome; the disk is this process's alone again."""
        try:
            res = coord.collect()
        finally:
            self.fs.coord = None
        self.fired("concurrent-token-handovers", coord.switches + int(res.get("switches", 0)))
        # the realised interleaving: both sides' file-system events in the order the token allowed them
        res["trace"] = ["%s %s" % (r_, w_) for _i, r_, w_ in sorted(list(coord.log) + [tuple(x) for x in res.get("coord_log", [])])]
        return res

    def quiet_budget_left(self):
        """Long loops of identical calls inside one op stop early (deterministically) when the code under test
        turns out to be far more expensive per call than the loop was sized for (every line a pre-emption
        point once it starts threads, a thread pool per call)."""
        n, _sw = self.threads.stats()
        return self.stepclock.steps < 12_000_000 and n < 1500

    def _note_threads(self):
        n, sw = self.threads.stats()
        if n:
            self.threads_ever = True
        if n and not getattr(self.threads.sched, "started_noted", False):
            self.fired("threads-started-by-the-code", n)
            self.fired("thread-switches-decided", sw)
            self.threads.sched.started_noted = True

    # -- seams for process-level services the code under test may start using
    def _atexit_register(self, func, *a, **kw):
        self.atexit_stack.append((func, a, kw))
        return func

    def _atexit_unregister(self, func):
        self.atexit_stack = [e for e in self.atexit_stack if e[0] != func]

    def _signal_signal(self, signum, handler):
        old = self.sig_handlers.get(signum, _signal.default_int_handler if signum == _signal.SIGINT else _signal.SIG_DFL)
        self.sig_handlers[signum] = handler
        self.probe("signal-handler-installed")
        return old

    def _signal_getsignal(self, signum):
        return self.sig_handlers.get(signum, _signal.default_int_handler if signum == _signal.SIGINT else _signal.SIG_DFL)

    def _deliver_sigint(self, frame):
        """Ctrl-C reaches the simulated process: True if the process handled it itself and goes on."""
        hd = self.sig_handlers.get(_signal.SIGINT)
        if hd is None or hd is _signal.default_int_handler or hd == _signal.SIG_DFL:
            return False
        self.fired("sigint-custom-handler")
        if hd == _signal.SIG_IGN:
            return True
        hd(_signal.SIGINT, frame)      # may raise (then that is what the interrupted code sees)
        return True

    def _run_atexit(self, stderr):
        """Interpreter shutdown: registered exit handlers, last registered first; errors are printed, not raised."""
        n = 0
        while self.atexit_stack:
            func, a, kw = self.atexit_stack.pop()
            n += 1
            try:
                func(*a, **kw)
            except SimInterrupt:
                raise
            except BaseException as e:  # noqa
                try:
                    stderr.write("Exception ignored in atexit callback: %r\n" % (e,))
                except Exception:
                    pass
        if n:
            self.fired("atexit-handlers-run", n)

    # -- the operation wrapper
    def run_op(self, thunk, cfg=None):
        """Execute thunk() as one operation of the simulated process.

        cfg (all optional, all explicit):
          log        None | 'i' | 'd'     root logger configured like `-l`
          depth      int                  extra stack frames below the call
          pollute    int                  put the global PRNG in this arbitrary state first
          clock      {mode, seed}         SimClock configuration
          fs_faults  [ {on, nth, errno, mode, partial, path} ]
          argv       [..]                 sys.argv for the op
          interrupt  {at: k} | {frac: x, total: T}   raise SimInterrupt at step k (fine steps)
          kill       None | {keep: x}     interrupt is a kill: only fraction x of unflushed data survives
          sweep_cap / step_cap            budgets (None = defaults)
          fine       bool                 count every line
        """
        cfg = cfg or {}
        sc = self.stepclock
        fs = self.fs
        self.n_ops += 1
        out = {"status": None}
        fs.begin_op(cfg.get("fs_faults"))
        clock_cfg = cfg.get("clock") or {"mode": "steady", "seed": 0}
        clk = SimClock(clock_cfg.get("mode", "steady"), clock_cfg.get("seed", 0), self.repo_files,
                       start=fs.disk_time + (0.0 if clock_cfg.get("mode") == "frozen" else 0.5))
        fs.clock = clk
        if cfg.get("pollute") is not None:
            _random.seed(cfg["pollute"])
            self.fired("prng-pollution")
        amb = cfg.get("ambient") or {}
        import decimal as _decimal
        dctx = _decimal.getcontext()
        old_dec = (dctx.rounding, dctx.prec)
        if amb.get("decimal_rounding"):
            # another tenant of the process changed the (thread-wide) decimal context
            dctx.rounding = getattr(_decimal, amb["decimal_rounding"])
            dctx.prec = int(amb.get("decimal_prec", dctx.prec))
            self.fired("ambient-decimal-context")
        old_warn = None
        if amb.get("warnings"):
            # the host process runs with `-W error` / PYTHONWARNINGS=error / a test runner's filterwarnings=error
            old_warn = list(_warnings.filters)
            # (the categories code raises deliberately about its data; deprecation notices of the interpreter
            # or the standard library stay as they are - they are not the tool's doing)
            _warnings.simplefilter(amb["warnings"], category=RuntimeWarning)
            _warnings.simplefilter(amb["warnings"], category=UserWarning)
            self.fired("ambient-warnings-" + amb["warnings"])
        if cfg.get("log"):
            import logging
            root = logging.getLogger()
            for hd in list(root.handlers):
                root.removeHandler(hd)
        intr = cfg.get("interrupt")
        at = None
        if intr:
            if "at" in intr:
                at = int(intr["at"])
            else:
                at = 1 + int(float(intr["frac"]) * max(0, int(intr["total"]) - 1))
        fine = bool(cfg.get("fine") or intr)
        kill = cfg.get("kill")

        so, se = Sink(), Sink()
        old = (sys.stdout, sys.stderr, sys.argv, builtins.open, io.open, os.rename, os.replace)
        old_proc = (_atexit.register, _atexit.unregister, _signal.signal, _signal.getsignal,
                    os.remove, os.unlink, os.mkdir, os.rmdir, os.open)
        os.open = lambda p_, fl_, *a, **kw: fs.os_open(old_proc[8], p_, fl_, *a, **kw)
        _atexit.register, _atexit.unregister = self._atexit_register, self._atexit_unregister
        _signal.signal, _signal.getsignal = self._signal_signal, self._signal_getsignal
        os.remove = lambda p_, *a, **kw: fs.syscall("remove", old_proc[4], p_, *a, **kw)
        os.unlink = lambda p_, *a, **kw: fs.syscall("remove", old_proc[5], p_, *a, **kw)
        os.mkdir = lambda p_, *a, **kw: fs.syscall("mkdir", old_proc[6], p_, *a, **kw)
        os.rmdir = lambda p_, *a, **kw: fs.syscall("rmdir", old_proc[7], p_, *a, **kw)
        sys.stdout, sys.stderr = so, se
        if cfg.get("argv") is not None:
            sys.argv = list(cfg["argv"])
        builtins.open = fs.open
        io.open = fs.open           # pathlib and friends resolve io.open at call time
        import locale as _locale
        old_loc = (io.text_encoding, _locale.getpreferredencoding, getattr(_locale, "getencoding", None))
        # code that resolves "the default encoding" itself (pathlib, subprocess-style helpers) must see
        # the simulated locale as well
        io.text_encoding = lambda encoding, stacklevel=2: fs.encoding if encoding is None else encoding
        _locale.getpreferredencoding = lambda do_setlocale=True: fs.encoding
        if old_loc[2] is not None:
            _locale.getencoding = lambda: fs.encoding
        _ren, _rep = os.rename, os.replace
        os.rename = lambda s_, d_, *a, **kw: fs.rename(_ren, s_, d_, *a, **kw)
        os.replace = lambda s_, d_, *a, **kw: fs.rename(_rep, s_, d_, *a, **kw)
        _time.time = clk.time
        _time.monotonic = clk.time
        _time.perf_counter = clk.time
        _time.time_ns = clk.time_ns
        if cfg.get("log"):
            lv = cfg["log"]
            try:
                proc.mod("conditionalrewards").set_logger(lv)
            except Exception:
                pass

        def call(d):
            if d <= 0:
                return thunk()
            return call(d - 1)

        inj = MemoryError if (intr and intr.get("exc") == "MemoryError") else None
        sc.arm(fine=fine, interrupt_at=at,
               sweep_cap=cfg.get("sweep_cap") or self.DEFAULT_SWEEP_CAP,
               step_cap=cfg.get("step_cap") or self.DEFAULT_STEP_CAP, interrupt_exc=inj)
        th_seed = cfg.get("sched_seed")
        if th_seed is None:
            th_seed = (self.sched_base * 1000003 + self.n_ops * 7919) & 0xFFFFFFFF
        self.threads.install(th_seed, (0.03, 0.1, 0.1, 0.3)[th_seed % 4], sc.threads_started)
        sc.sched = self.threads.sched
        _threads.SLEEP_HOOK = lambda secs_: setattr(clk, "now", clk.now + max(0.0, float(secs_)))
        if kill:
            # the clock raises; the disk must know before any finaliser (`with`) runs, and no handler,
            # finally block or exit hook of the dead process may execute
            keep = float(kill.get("keep", 0.0))

            def _killed():
                fs.killed = True
                fs.kill_keep = keep
                sc.dead = True
            sc.on_interrupt = _killed
        else:
            sc.on_interrupt = None
            if intr and inj is None:
                sc.deliver = self._deliver_sigint
        try:
            try:
                out["value"] = call(int(cfg.get("depth") or 0))
                out["status"] = "ok"
            except SimInterrupt as e:
                out["status"] = "interrupt"
                out["site"] = str(e)
            except Divergent as e:
                out["status"] = "divergent"
                out["info"] = e.info
            except Inconclusive as e:
                out["status"] = "inconclusive"
                out["info"] = e.info
            except SystemExit as e:
                out["status"] = "exit"
                out["code"] = e.code
            except BaseException as e:  # noqa: the system under test may raise anything
                out["status"] = "exc"
                out["etype"] = type(e).__name__
                out["emsg"] = str(e)
                if inj is not None and isinstance(e, MemoryError) and str(e).startswith("injected at "):
                    out["injected"] = "MemoryError"
                    out["site"] = str(e)[len("injected at "):]
                out["is_oserror"] = isinstance(e, OSError)
                e.__traceback__ = None
                del e
        finally:
            try:
                # background threads of the simulated process run on until they finish or block
                self.threads.uninstall()
            except BaseException as e:  # noqa
                out["threads_drain"] = type(e).__name__
            _threads.SLEEP_HOOK = None
            if self.atexit_stack and (fs.killed or sc.dead):
                self.atexit_stack = []          # a killed process runs no exit handlers
            if self.atexit_stack and cfg.get("process_ends"):
                try:
                    self._run_atexit(se)
                except BaseException as e:  # noqa: budget exhausted / interrupted inside an exit handler
                    out["atexit_aborted"] = type(e).__name__
                    self.atexit_stack = []
            if sc.interrupt_site is not None and inj is None and out["status"] in ("ok", "exit"):
                # the code caught the Ctrl-C itself (handler, `except KeyboardInterrupt`) and ended in its
                # own way: still an invocation the user aborted - no claim is made about what it left behind
                out["swallowed"] = out["status"]
                out["status"] = "interrupt"
                out["site"] = sc.interrupt_site
                self.probe("ctrl-c-handled-by-the-code-itself")
            elif sc.interrupt_site is not None and inj is None and out["status"] == "exc":
                # ... or turned it into an exception of its own: a failed invocation, like an injected MemoryError
                out["injected"] = "KeyboardInterrupt(converted)"
                out.setdefault("site", sc.interrupt_site)
                self.probe("ctrl-c-converted-by-the-code-itself")
            out["steps"] = sc.disarm()
            out["sweeps"] = sc.total_sweeps
            out["max_sweeps"] = sc.max_sweeps
            sc.on_interrupt = None
            fs.disk_time = clk.now
            if len(fs.open_files) or out["status"] != "ok":
                gc.collect()
            if cfg.get("process_ends") or fs.killed:
                self._note_threads()
                self.threads.process_ends()     # the threads of a process end with it
            fs.end_op(process_ends=bool(cfg.get("process_ends")))
            builtins.open = old[3]
            io.open = old[4]
            os.rename, os.replace = old[5], old[6]
            (_atexit.register, _atexit.unregister, _signal.signal, _signal.getsignal,
             os.remove, os.unlink, os.mkdir, os.rmdir, os.open) = old_proc
            io.text_encoding, _locale.getpreferredencoding = old_loc[0], old_loc[1]
            if old_loc[2] is not None:
                _locale.getencoding = old_loc[2]
            sys.stdout, sys.stderr, sys.argv = old[0], old[1], old[2]
            for k, v in _REAL_TIME.items():
                setattr(_time, k, v)
            fs.clock = None
            dctx.rounding, dctx.prec = old_dec
            if old_warn is not None:
                _warnings.filters[:] = old_warn
                try:
                    _warnings._filters_mutated()
                except AttributeError:
                    pass
        out["stdout"] = so.n
        out["stderr"] = se.n
        out["stderr_text"] = se.text()[:2000]
        out["fs_events"] = list(fs.events)
        out["fs_fired"] = list(fs.fired)
        out["clock_reads"] = list(clk.reads)
        out["clock_odd"] = clk.odd
        for k in fs.fired:
            self.fired("io-" + k)
        if fs.escapes:
            self.probe("write-outside-simulated-disk-blocked", len(fs.escapes))
            out["escapes"] = list(fs.escapes)
            fs.escapes = []
        if out["status"] == "interrupt":
            self.fired("kill" if kill else "sigint")
        if sc.interrupt_site is not None and inj is not None:
            self.fired("memoryerror")
            out.setdefault("injected", "MemoryError(swallowed)" if out["status"] == "ok" else "MemoryError")
        if clk.mode != "steady" and clk.reads:
            self.fired("clock-" + clk.mode)
        if cfg.get("log"):
            self.fired("log-" + str(cfg["log"]))
        if cfg.get("depth"):
            self.fired("stack-depth")
        self.virtual_seconds += clk.now - clk.start
        self.total_steps += out["steps"]
        return out
