"""Request handlers executed inside a pristine reference child (see proc.RefServer)."""
from . import proc, ops
from .lit import enc, dec
from .steps import StepClock
from .world import World

_WORLD = None
_CLOCK = None


def prepare():
    """Called in the worker before the zygote is forked: everything that is
    expensive but touches no repository code (AST scan for loop headers)."""
    global _CLOCK
    if _CLOCK is None or _CLOCK.snap is not proc.snapshot():
        _CLOCK = StepClock(proc.snapshot())


def _world():
    global _WORLD
    if _WORLD is None:
        prepare()
        _CLOCK.install()
        _WORLD = World(proc.snapshot(), _CLOCK, None, "ref")
    return _WORLD


def handle(kind, payload):
    proc.OPTIMIZE = int(payload.get("_optimize") or 0)
    w = _world()
    try:
        return HANDLERS[kind](w, payload)
    finally:
        w.close()


def h_solve(w, p):
    desc = dec(p["desc"])
    cfg = {"fine": bool(p.get("fine")), "sweep_cap": p.get("sweep_cap"), "step_cap": p.get("step_cap")}
    out = ops.solve(w, desc, p["prune"], cfg)
    s = ops.summarize(out)
    s["desc_after"] = enc({k: desc.get(k) for k in ops.FIELDS})
    return s


def h_read_file(w, p):
    return ops.summarize(ops.read_file(w, p["path"]))


def h_board(w, p):
    return ops.summarize(ops.board(w, p["params"]))


def h_gen_cli(w, p):
    out = ops.gen_cli(w, p["params"], None, p.get("entropy", 0))
    s = ops.summarize(out)
    s["files"] = w.fs.snapshot()
    return s


def h_gen_manual(w, p):
    out = ops.gen_manual(w, p["board"], None, p.get("entropy", 0))
    s = ops.summarize(out)
    s["files"] = w.fs.snapshot()
    return s


def h_gen_games(w, p):
    """Generator CLI followed by the real reader: the three games as literals."""
    out = ops.gen_cli(w, p["params"], None, p.get("entropy", 0))
    s = ops.summarize(out)
    files = w.fs.snapshot()
    s["files"] = sorted(files)
    if out["status"] == "ok" and len(files) == 1:
        path = next(iter(files))
        w.restart(1)
        r = ops.read_file(w, path)
        s["read"] = ops.summarize(r)
    return s


def h_run_alone(w, p):
    """run_games on a one-game dict in a never-used process: the batch runner's own
    words for 'this game alone' (messages, entry layout)."""
    out = ops.run_games(w, {p["name"]: dec(p["desc"])}, {"sweep_cap": p.get("sweep_cap")})
    return ops.summarize(out)


HANDLERS = {
    "run_alone": h_run_alone,
    "solve": h_solve,
    "read_file": h_read_file,
    "board": h_board,
    "gen_cli": h_gen_cli,
    "gen_manual": h_gen_manual,
    "gen_games": h_gen_games,
}
