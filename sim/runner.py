"""Batch runner: seeded runs on a process pool, evidence, known findings,
minimisation and replay.

Exit codes of `check`: 0 property held on everything explored (known findings
are printed, not failed); 1 a violation not listed in known_findings.json;
2 the harness itself failed (HARNESS-ERROR / HARNESS-TIMEOUT) - never reported
as a violation and never as success.
"""
import concurrent.futures as cf
import faulthandler
import hashlib
import importlib
import json
import multiprocessing
import os
import random
import signal
import subprocess
import sys
import time
import traceback

from . import proc
from .lit import h

VERIF_DIR = os.path.dirname(os.path.dirname(os.path.abspath(__file__)))
PROPS = ("C10", "C11", "C12", "C15", "C16", "C17")

_MASK = (1 << 64) - 1


def splitmix(*parts):
    """Stable 64-bit mix of integers/strings (no dependence on PYTHONHASHSEED)."""
    x = 0x9E3779B97F4A7C15
    for p in parts:
        if isinstance(p, str):
            p = int.from_bytes(hashlib.sha256(p.encode()).digest()[:8], "little")
        x = (x + (p & _MASK) + 0x9E3779B97F4A7C15) & _MASK
        z = x
        z = ((z ^ (z >> 30)) * 0xBF58476D1CE4E5B9) & _MASK
        z = ((z ^ (z >> 27)) * 0x94D049BB133111EB) & _MASK
        x = z ^ (z >> 31)
    return x


def load_prop(pid):
    return importlib.import_module("sim.props." + pid.lower())


# ---------------------------------------------------------------------------
# worker side
# ---------------------------------------------------------------------------

class Ctx:
    """Per-worker context: the step clock, the reference server, cached pools."""

    # properties that promise the same answer in *any* process ("identical results", "exactly what solving
    # alone gives", "identical every time"): their reference interpreter also hashes strings differently
    HASH_VARIED = ("C10", "C12", "C15")
    REF_HASHSEED = 977

    def __init__(self, pid=None):
        from .steps import StepClock
        self.snap = proc.snapshot()
        self.pid = pid
        # the zygote comes into being before anything else runs
        self.ref = proc.RefServer(hashseed=self.REF_HASHSEED if pid in self.HASH_VARIED else None)
        self.clock = StepClock(self.snap)
        self.clock.install()
        self.cache = {}
        self.seq = 0
        self.known = load_known()
        self.sweep_cap = None

    def known_match(self, pid, violation):
        return match_known(pid, violation, self.known)

    def world(self, dotted=False):
        from .world import World
        self.seq += 1
        return World(self.snap, self.clock, self.ref, ("w%d.v2" if dotted else "w%d") % self.seq)


_CTX = None


def ctx(pid=None):
    global _CTX
    if _CTX is None or (pid is not None and _CTX.pid != pid):
        if _CTX is not None:
            _CTX.ref.close()
            _CTX.clock.uninstall()
        _CTX = Ctx(pid)
    return _CTX


def run_spec(pid, spec):
    """Execute one run spec in a fresh world; returns the prop's result dict."""
    prop = load_prop(pid)
    c = ctx(pid)
    proc.OPTIMIZE = int((spec.get("cfg") or {}).get("optimize") or 0)
    w = c.world(dotted=bool((spec.get("cfg") or {}).get("cwd_dot")))
    try:
        if (spec.get("cfg") or {}).get("cwd_dot"):
            w.fired("dot-in-working-directory-path")
        if proc.OPTIMIZE:
            w.fired("python-OO")
        w.fs.mounts = tuple((spec.get("cfg") or {}).get("mounts") or ())
        if w.fs.mounts:
            w.fired("folders-on-file-systems-of-their-own")
        w.sched_base = int((spec.get("cfg") or {}).get("sched_seed") or 0)
        spare = (spec.get("cfg") or {}).get("fd_spare")
        if spare:
            w.limit_descriptors(spare)      # the simulated machine's open-file limit (marathon sessions)
        res = prop.execute(spec, w, c)
    finally:
        w.close()
        proc.OPTIMIZE = 0
    res.setdefault("faults", {})
    res.setdefault("probes", {})
    for k, v in w.fault_counts.items():
        res["faults"][k] = res["faults"].get(k, 0) + v
    for k, v in w.probes.items():
        res["probes"][k] = res["probes"].get(k, 0) + v
    res["ops"] = res.get("ops", w.n_ops)
    res["steps"] = w.total_steps
    res["virtual_seconds"] = w.virtual_seconds
    res["digest"] = h(json.dumps([res.get("events", []), res["steps"], res["ops"], res["faults"], res["probes"],
                                  res.get("states", []), (res.get("violation") or {}).get("msg")],
                                 sort_keys=True, default=str))
    return res


def _vary_syscall_faults(spec, seed):
    """One write-side I/O fault in four becomes a failing rename/replace, mkdir or remove instead (EACCES, EXDEV-like
    EIO, ENOSPC): the steps an 'atomic' writer adds around its data.  Code that never makes these calls runs such an
    op as a clean one, with the strict checks of a clean op."""
    rng = random.Random(splitmix(seed, "syscall-faults"))
    for op in spec.get("ops", []):
        fl = op.get("fs_faults") if isinstance(op, dict) else None
        if fl and isinstance(fl, list) and fl[0].get("mode", "w") == "w" and rng.random() < 0.25:
            on = rng.choice(["rename", "rename", "rename", "mkdir", "remove"])
            op["fs_faults"] = [{"on": on, "mode": "w", "nth": 1, "errno": rng.choice(["EACCES", "EIO", "ENOSPC"])}]
        if isinstance(op, dict) and op.get("op") == "gen_manual" and isinstance(op.get("board"), dict) and rng.random() < 0.35:
            op["board"] = dict(op["board"], container=rng.choice(["tuple", "tuple", "rows_tuple", "outer_tuple"]))
        it = op.get("interrupt") if isinstance(op, dict) else None
        if isinstance(it, dict) and rng.random() < 0.4:
            # aim the interruption a few lines after the k-th file-system event of the op (see common.interrupt_at)
            it["after_event"] = rng.randint(0, 60)
            it["delta"] = rng.choice([0, 0, 1, 2, 3, 5, 8, 13, 21])


def _worker_chunk(pid, base_seed, tier, indices, keep_specs):
    faulthandler.enable()
    prop = load_prop(pid)
    c = ctx(pid)
    c.sweep_cap = SWEEP_CAP[tier]
    out = []
    for idx in indices:
        try:
            if idx < 0:
                spec = prop.fixed_specs(tier, c)[-idx - 1]
                seed = None
            else:
                seed = splitmix(base_seed, pid, idx)
                spec = prop.gen(random.Random(seed), tier, c)
                _vary_syscall_faults(spec, seed)
                spec.setdefault("cfg", {})
                spec["cfg"] = dict(spec["cfg"], sched_seed=seed & 0xFFFFFFFF)
                if (seed >> 21) % 12 == 0:
                    # inputs/ and/or outputs/ are mounts of their own (a data disk, a container volume)
                    spec["cfg"] = dict(spec["cfg"], mounts=[["inputs"], ["outputs"], ["inputs", "outputs"]][(seed >> 25) % 3])
                if (seed >> 15) % 8 == 0:
                    # the working directory's path has a dot in it (john.doe, boards.v2)
                    spec.setdefault("cfg", {})
                    spec["cfg"] = dict(spec["cfg"], cwd_dot=True)
                if (seed >> 9) % 25 == 0:
                    # the deployment runs the tool as `python -OO` (asserts stripped, __debug__ false)
                    spec.setdefault("cfg", {})
                    spec["cfg"] = dict(spec["cfg"], optimize=2)
            res = run_spec(pid, spec)
            rec = {
                "idx": idx, "seed": seed, "digest": res["digest"],
                "violation": res.get("violation"), "nontrivial": bool(res.get("nontrivial")),
                "signature": res.get("signature"), "ops": res["ops"], "steps": res["steps"],
                "virtual_seconds": res["virtual_seconds"], "faults": res["faults"],
                "probes": res["probes"], "discards": res.get("discards", {}),
                "states": res.get("states", []), "agg": res.get("agg"),
                "known": res.get("known", []),
            }
            if res.get("violation") or res.get("known") or idx in keep_specs or idx < 0:
                rec["spec"] = spec
            if idx in keep_specs:
                rec["events"] = res.get("events", [])[:40]
            out.append(rec)
        except proc.HarnessError as e:
            out.append({"idx": idx, "harness_error": str(e)})
        except Exception as e:  # harness bug: report, never a violation
            out.append({"idx": idx, "harness_error": "%s: %s\n%s" % (type(e).__name__, e, traceback.format_exc())})
    return out


# ---------------------------------------------------------------------------
# known findings
# ---------------------------------------------------------------------------

def load_known():
    p = os.path.join(VERIF_DIR, "known_findings.json")
    if not os.path.exists(p):
        return []
    with open(p) as f:
        return json.load(f).get("findings", [])


def match_known(pid, violation, known):
    """Return the *open* finding this violation is an instance of, if any."""
    sig = violation.get("sig") or {}
    for k in known:
        if k.get("property") != pid or k.get("status") != "open":
            continue
        if k.get("inv") and k["inv"] != violation.get("inv"):
            continue
        m = k.get("match") or {}
        if all(sig.get(a) == b for a, b in m.items()):
            return k
    return None


# ---------------------------------------------------------------------------
# minimisation
# ---------------------------------------------------------------------------

def _same_failure(v, target):
    return (v is not None and v.get("inv") == target.get("inv")
            and (v.get("sig") or {}).get("class") == (target.get("sig") or {}).get("class"))


def minimise(pid, spec, target, budget_s=90, max_exec=400):
    """ddmin over the op list, then property-specific simplifications, while the
    same (invariant, class) keeps failing.  Runs in this process (fresh world
    and fresh module objects per execution)."""
    prop = load_prop(pid)
    t0 = time.time()
    n_exec = [0]

    def fails(s):
        if time.time() - t0 > budget_s or n_exec[0] >= max_exec:
            return False
        n_exec[0] += 1
        try:
            r = run_spec(pid, s)
        except Exception:
            return False
        return _same_failure(r.get("violation"), target)

    cur = spec
    ops = list(cur.get("ops", []))
    # 1. truncate after the failing op
    k = target.get("op")
    if isinstance(k, int) and 0 <= k < len(ops) - 1:
        cand = dict(cur, ops=ops[: k + 1])
        if fails(cand):
            cur, ops = cand, cand["ops"]
    # 2. ddmin on ops
    n = 2
    while len(ops) >= 2:
        chunk = max(1, len(ops) // n)
        reduced = False
        for i in range(0, len(ops), chunk):
            cand_ops = ops[:i] + ops[i + chunk:]
            if not cand_ops:
                continue
            cand = dict(cur, ops=cand_ops)
            if fails(cand):
                cur, ops = cand, cand_ops
                n = max(n - 1, 2)
                reduced = True
                break
        if not reduced:
            if chunk == 1:
                break
            n = min(len(ops), n * 2)
    # 3. property-specific simplification to a fixpoint
    changed = True
    while changed and time.time() - t0 < budget_s:
        changed = False
        for cand in prop.simplify(cur):
            if fails(cand):
                cur = cand
                changed = True
                break
    return cur, n_exec[0]


# ---------------------------------------------------------------------------
# driver
# ---------------------------------------------------------------------------

def _pool(workers):
    mpctx = multiprocessing.get_context("fork")
    return cf.ProcessPoolExecutor(max_workers=workers, mp_context=mpctx)


def run_batch(pid, tier, base_seed, n_runs, workers, n_fixed, keep=6, chunk_timeout=None):
    if chunk_timeout is None:
        # backstop only (a hang in C code or in the harness): generous, scaled with the batch
        chunk_timeout = 5400 + (8 * 3600 if tier == "thorough" else 0) + n_runs // 20
    indices = [-(i + 1) for i in range(n_fixed)] + list(range(n_runs))
    keep_specs = set(range(min(keep, n_runs)))
    # contiguous blocks, many more blocks than workers for balance; result order is by index
    nblocks = max(1, min(len(indices), workers * 8))
    size = (len(indices) + nblocks - 1) // nblocks
    blocks = [indices[i:i + size] for i in range(0, len(indices), size)]
    recs = []
    ex = _pool(workers)
    try:
        futs = [ex.submit(_worker_chunk, pid, base_seed, tier, b, keep_specs) for b in blocks]
        deadline = time.time() + chunk_timeout
        for f in futs:
            left = max(1.0, deadline - time.time())
            recs.extend(f.result(timeout=left))
    except (cf.TimeoutError, cf.process.BrokenProcessPool) as e:
        for p in list(getattr(ex, "_processes", {}).values()):
            try:
                os.kill(p.pid, signal.SIGKILL)
            except OSError:
                pass
        ex.shutdown(wait=False, cancel_futures=True)
        raise proc.HarnessError("HARNESS-TIMEOUT/pool failure: %r" % (e,))
    ex.shutdown(wait=True)
    recs.sort(key=lambda r: (0, -r["idx"]) if r["idx"] < 0 else (1, r["idx"]))
    return recs


SWEEP_CAP = {"quick": 6000, "thorough": 20000}


def sweep_stale_scratch():
    """Remove scratch disks left behind by workers that were killed (their pid is gone)."""
    import shutil
    for base in ("/dev/shm", "/tmp"):
        try:
            names = os.listdir(base)
        except OSError:
            continue
        for n in names:
            if not n.startswith(("cr-sim-", "cr-mutant-", "cr-benign-", "cr-intake-")):
                continue
            parts = n.split("-")
            try:
                pid_ = int(parts[2])
            except (IndexError, ValueError):
                continue        # mkdtemp names carry no pid: left to their owners
            if not os.path.exists("/proc/%d" % pid_):
                shutil.rmtree(os.path.join(base, n), ignore_errors=True)


def check(pid, tier, seed=None, runs=None, workers=None, write_evidence=True, quiet=False):
    t0 = time.time()
    sweep_stale_scratch()
    if seed is None:
        seed = int(os.environ.get("VERIF_SEED", "20261004") or 0)
    workers = workers or int(os.environ.get("VERIF_WORKERS", "0") or 0) or min(16, os.cpu_count() or 4)
    snap = proc.RepoSnapshot()
    proc.install(snap)
    prop = load_prop(pid)
    n_runs = runs if runs is not None else prop.RUNS[tier]
    known = load_known()
    # fixed specs (exhaustive sweeps, exemplars of open known findings) are built in the workers;
    # their number must be known here: ask the prop with a throw-away context-free call
    n_fixed = prop.n_fixed(tier)
    try:
        recs = run_batch(pid, tier, seed, n_runs, workers, n_fixed)
    except proc.HarnessError as e:
        print("HARNESS-ERROR property=%s %s" % (pid, e))
        return 2
    herr = [r for r in recs if "harness_error" in r]
    if herr:
        print("HARNESS-ERROR property=%s runs=%d first=%s" % (pid, len(herr), herr[0]["harness_error"][:1500]))
        return 2

    # batch-level invariants (statistics pooled over all runs)
    batch_viol = prop.finalize(recs) if hasattr(prop, "finalize") else None

    viols, known_hits = [], {}
    for r in recs:
        for kv in r.get("known", []):
            k = match_known(pid, kv, known)
            if k is None:
                viols.append((r, kv))
            else:
                known_hits.setdefault(k["id"], []).append((r, kv))
        v = r.get("violation")
        if not v:
            continue
        k = match_known(pid, v, known)
        if k is not None:
            known_hits.setdefault(k["id"], []).append((r, v))
        else:
            viols.append((r, v))

    for k in known:
        if k.get("property") == pid and k.get("status") == "open" and k["id"] in known_hits:
            r, v = known_hits[k["id"]][0]
            print("KNOWN-FINDING: property=%s %s [%s; %d run(s) this batch, e.g. %s]" % (
                pid, k["what"], k["id"], len(known_hits[k["id"]]), v.get("msg", "")[:200]))

    rc = 0
    replay_path = None
    if viols or batch_viol:
        rc = 1
        if viols:
            r, v = viols[0]
            spec = r["spec"]
            if not quiet:
                print("violation found in run idx=%s seed=%s: %s %s" % (r["idx"], r["seed"], v.get("inv"), v.get("msg", "")[:500]))
            try:
                ctx(pid)   # minimise in this process (own zygote)
                mspec, n_exec = minimise(pid, spec, v)
                mres = run_spec(pid, mspec)
                mv = mres.get("violation") or v
                trace = mres.get("events", [])[:120]
            except Exception as e:  # noqa
                mspec, n_exec, mv, trace = spec, 0, v, []
                print("minimisation failed (%s); reporting the unminimised run" % e)
            os.makedirs(os.path.join(VERIF_DIR, "replays", pid), exist_ok=True)
            replay_path = os.path.join(VERIF_DIR, "replays", pid, "%s.json" % (r["seed"] if r["seed"] is not None else "fixed%d" % -r["idx"]))
            write_replay(replay_path, {"property": pid, "seed": r["seed"], "run_index": r["idx"], "base_seed": seed,
                                       "tier": tier, "repo_digest": snap.digest(), "violation": mv,
                                       "original_ops": len(spec.get("ops", [])),
                                       "minimised_ops": len(mspec.get("ops", [])),
                                       "minimise_executions": n_exec,
                                       "trace_of_the_minimised_run": trace,     # outcomes, faults fired, interleavings as they happened
                                       "readable": prop.readable(mspec) if hasattr(prop, "readable") else None},
                         mspec)
            # the minimised file must reproduce in a fresh interpreter
            pr = subprocess.run([sys.executable, os.path.join(VERIF_DIR, "simcheck"), "replay", replay_path],
                                capture_output=True, text=True, timeout=600)
            if pr.returncode != 1:
                print("WARNING: replay in a fresh interpreter did not reproduce (rc=%s): %s" % (pr.returncode, pr.stdout[-500:]))
            print("  invariant : %s" % mv.get("inv"))
            print("  what      : %s" % mv.get("msg", "")[:1500])
            print("  minimised : %d -> %d ops in %d executions" % (len(spec.get("ops", [])), len(mspec.get("ops", [])), n_exec))
            print("VIOLATION property=%s replay=%s" % (pid, replay_path))
        else:
            os.makedirs(os.path.join(VERIF_DIR, "replays", pid), exist_ok=True)
            replay_path = os.path.join(VERIF_DIR, "replays", pid, "batch-%d.json" % seed)
            with open(replay_path, "w") as f:
                json.dump({"property": pid, "base_seed": seed, "tier": tier, "runs": n_runs,
                           "batch_violation": batch_viol, "spec": None}, f, indent=1)
            print("  invariant : %s" % batch_viol.get("inv"))
            print("  what      : %s" % batch_viol.get("msg"))
            print("VIOLATION property=%s replay=%s" % (pid, replay_path))

    wall = time.time() - t0
    if write_evidence:
        write_ev(pid, tier, seed, recs, wall, len(viols) + (1 if batch_viol else 0), known_hits, workers, prop, snap)
    if not quiet:
        nt = len({r["signature"] for r in recs if r.get("nontrivial")})
        print("%s %s: %d runs, %d distinct non-trivial, %d ops, %.1fs, violations=%d known=%s" % (
            pid, tier, len(recs), nt, sum(r["ops"] for r in recs), wall, len(viols),
            {k: len(v) for k, v in known_hits.items()}))
    return rc


def write_replay(path, meta, spec):
    """Meta data pretty-printed, the spec (exact, machine-encoded literals) on one line per op."""
    with open(path, "w") as f:
        body = json.dumps(meta, indent=1, default=str)
        f.write(body[:-2] + ',\n "spec": ')
        if spec is None:
            f.write("null")
        else:
            f.write("{\n")
            keys = list(spec)
            for i, k in enumerate(keys):
                v = spec[k]
                if isinstance(v, list) and v:
                    f.write('  %s: [\n' % json.dumps(k))
                    f.write(",\n".join("   " + json.dumps(x) for x in v))
                    f.write("\n  ]")
                else:
                    f.write("  %s: %s" % (json.dumps(k), json.dumps(v)))
                f.write(",\n" if i < len(keys) - 1 else "\n")
            f.write(" }")
        f.write("\n}\n")


def _sum_dicts(recs, key):
    out = {}
    for r in recs:
        for k, v in (r.get(key) or {}).items():
            out[k] = out.get(k, 0) + v
    return dict(sorted(out.items()))


def write_ev(pid, tier, seed, recs, wall, n_viol, known_hits, workers, prop, snap):
    nontriv = {r["signature"] for r in recs if r.get("nontrivial")}
    states = set()
    for r in recs:
        states.update(r.get("states") or [])
    samples = []
    for r in recs:
        if "spec" in r and r["idx"] >= 0 and len(samples) < 3:
            samples.append({"run_index": r["idx"], "seed": r["seed"], "ops": r["spec"].get("ops", [])[:12],
                            "cfg": r["spec"].get("cfg"), "events": r.get("events", [])[:12]})
    if not samples:
        samples = [{"note": "no sampled spec"}]
    total_ops = sum(r["ops"] for r in recs)
    ev = {
        "property_id": pid,
        "tier": tier,
        "seed": seed,
        "level": "exploration",
        "coverage": {
            "evaluations": len(recs),
            "distinct_nontrivial": len(nontriv),
            "rule": prop.RULE,
            "samples": _trim(samples),
            "ops": total_ops,
            "sim_steps": sum(r["steps"] for r in recs),
            "virtual_seconds": round(sum(r["virtual_seconds"] for r in recs), 3),
            "runs_per_hour": int(len(recs) / wall * 3600) if wall > 0 else 0,
            "seeds_per_hour": int(len([r for r in recs if r["idx"] >= 0]) / wall * 3600) if wall > 0 else 0,
            "workers": workers,
            "faults_fired": _sum_dicts(recs, "faults"),
            "probes": _sum_dicts(recs, "probes"),
            "discarded_workloads": _sum_dicts(recs, "discards"),
            "distinct_world_states": len(states),
            "distinct_run_digests": len({r["digest"] for r in recs}),
            "known_findings_hit": {k: len(v) for k, v in known_hits.items()},
            "real_components": prop.REAL,
            "simulated_components": prop.SIMULATED,
            "repo_digest": snap.digest(),
            "exhaustive": False,
        },
        "assumptions": prop.ASSUMPTIONS,
        "wall_s": round(wall, 3),
        "violations": n_viol,
    }
    extra = prop.evidence_extra(recs) if hasattr(prop, "evidence_extra") else None
    if extra:
        ev["coverage"].update(extra)
    os.makedirs(os.path.join(VERIF_DIR, "evidence"), exist_ok=True)
    with open(os.path.join(VERIF_DIR, "evidence", "%s.json" % pid), "w") as f:
        json.dump(ev, f, indent=1, default=str)


def _trim(o, n=1500):
    s = json.dumps(o, default=str)
    if len(s) <= 6000:
        return o
    out = []
    for x in o:
        sx = json.dumps(x, default=str)
        out.append(x if len(sx) <= n else {"truncated": sx[:n]})
    return out


def replay(path):
    with open(path) as f:
        rp = json.load(f)
    pid = rp["property"]
    snap = proc.RepoSnapshot()
    proc.install(snap)
    if rp.get("spec") is None:
        # batch-level (statistical) violation: re-run the batch
        return check(pid, rp.get("tier", "quick"), seed=rp["base_seed"], runs=rp.get("runs"), write_evidence=False)
    res = run_spec(pid, rp["spec"])
    v = res.get("violation")
    if v is None and res.get("known"):
        v = res["known"][0]
    if v is None:
        print("replay: no violation reproduced (property %s, digest %s)" % (pid, res["digest"]))
        return 0
    print("replay: %s %s" % (v.get("inv"), v.get("msg", "")[:1500]))
    print("replay digest %s" % res["digest"])
    known = load_known()
    k = match_known(pid, v, known)
    if k is not None:
        print("KNOWN-FINDING: property=%s %s [%s]" % (pid, k["what"], k["id"]))
        return 0
    print("VIOLATION property=%s replay=%s" % (pid, os.path.abspath(path)))
    return 1
