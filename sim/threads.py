"""Deterministic scheduling of threads the code under test starts.

The repository is single-threaded; a change may introduce threads (a thread pool in the batch runner,
a background writer).  Left alone, such threads would interleave as the OS and the GIL decide: failures
would neither be found reliably nor replay.  Under this seam exactly one thread of the simulated process
executes at any time (the *holder*); the others are parked on private gates.  The holder gives the baton
away only
  * at a line of repository code (pre-emption point of the step clock), with a seeded probability, or
  * inside a blocking primitive (lock, condition, event, semaphore, queue, join, future, sleep), which is
    reduced to "park until a predicate over the program state holds, then take without blocking".
Every choice comes from one `random.Random(seed)`; the seed is explicit in the run's configuration.

What is simulated: threading.Thread.start/join, threading.Lock/RLock (hence Condition, Event, Semaphore,
Barrier, queue.Queue, concurrent.futures built on them, for objects created while the seam is active),
queue.SimpleQueue, time.sleep.  multiprocessing and asyncio are not.
"""
import _thread
import collections
import random
import sys
import threading
import time as _time
import queue as _queue

_REAL_ALLOC = _thread.allocate_lock
_REAL = {
    "start": threading.Thread.start, "join": threading.Thread.join, "Lock": threading.Lock,
    "_allocate_lock": threading._allocate_lock, "RLock": threading.RLock, "_CRLock": threading._CRLock,
    "SimpleQueue": _queue.SimpleQueue, "sleep": _time.sleep, "get_ident": _thread.get_ident,
}

ACTIVE = None           # the scheduler of the simulated process whose op is running (None: seam inert)


class ThreadKilled(BaseException):
    """The simulated process ended (or was killed) while this thread was parked."""


class SimDeadlock(BaseException):
    """Every thread of the simulated process waits for another one: the real program would hang."""


class _ST:
    __slots__ = ("ident", "index", "name", "gate", "state", "pred", "killed", "bypass", "thread", "timed_out")
    # timed_out: False = plain; None = waiting with a timeout; True = that wait has just run out

    def __init__(self, index, name, thread=None):
        self.ident = None
        self.index = index
        self.name = name
        self.gate = _REAL_ALLOC()
        self.gate.acquire()
        self.state = "ready"
        self.pred = None
        self.killed = False
        self.bypass = 0
        self.thread = thread
        self.timed_out = False


class Scheduler:
    MAX_PREEMPT = 400

    def __init__(self, seed, p_switch=0.15):
        self.rng = random.Random(seed)
        self.p = p_switch
        self.p_burst = 0.4 + 0.5 * p_switch
        self.seq = 0
        self.by_ident = {}
        self.all = []
        main = _ST(0, "main")
        main.ident = _REAL["get_ident"]()
        main.state = "running"
        self.main = main
        self.by_ident[main.ident] = main
        self.all.append(main)
        self.holder = main
        self.switches = 0
        self.started = 0
        self.stopped = False
        self.deadlocked = None
        self.on_first_thread = None
        self.lines = 0              # repository lines executed while more than one thread is alive
        self.next_at = 1            # ... the next pre-emption falls on this one
        self.preemptions = 0
        self.log = []           # (seq, from, to, why) - bounded

    # -- bookkeeping ---------------------------------------------------------
    def me(self):
        return self.by_ident.get(_REAL["get_ident"]())

    def live_others(self):
        n = 0
        for t in self.all:
            if t.state != "done":
                n += 1
                if n > 1:
                    return True
        return False

    @staticmethod
    def _true(pred):
        try:
            return bool(pred()) if pred is not None else True
        except Exception:
            return True

    def _runnable(self, exclude=None):
        """(threads that can run now, draining threads, timed waiters) - each in creation order."""
        out, last, timed = [], [], []
        for t in self.all:
            if t is exclude or t.state in ("done", "running"):
                continue
            if t.state == "ready":
                out.append(t)
            elif t.state == "draining":
                last.append(t)
            elif t.state == "blocked":
                if self._true(t.pred):
                    out.append(t)
                elif t.timed_out is None:       # None marks "waits with a timeout"
                    timed.append(t)
        return out, last, timed

    def _hand_over(self, me, nxt, why):
        self.switches += 1
        self.seq += 1
        if len(self.log) < 400:
            self.log.append((self.seq, me.name if me else None, nxt.name, why))
        nxt.state = "running"
        self.holder = nxt
        nxt.gate.release()

    def _park(self, me):
        me.gate.acquire()
        if me.killed:
            raise ThreadKilled()
        me.state = "running"
        if me is self.main and self.deadlocked:
            why, self.deadlocked = self.deadlocked, None
            raise SimDeadlock(why)

    def _choose(self, pool):
        return pool[self.rng.randrange(len(pool))] if len(pool) > 1 else pool[0]

    def switch(self, me, new_state, pred=None, why="", timed=False):
        """Give the baton away (or keep it).  Returns False when `me` waits with a timeout and nothing
        else can make progress (the wait then times out)."""
        me.state = new_state
        me.pred = pred
        me.timed_out = None if (timed and new_state == "blocked") else False
        out, last, timed_waiters = self._runnable(exclude=me)
        me_ok = new_state == "ready" or (new_state == "blocked" and self._true(pred))
        pool = out + ([me] if me_ok else [])
        if not pool and new_state != "draining":
            pool = last
        if not pool:
            if new_state == "draining":
                me.state = "running"
                return False
            # nothing can run: the earliest timed wait (mine included) times out
            if timed and new_state == "blocked":
                timed_waiters = sorted(timed_waiters + [me], key=lambda t: t.index)
            if timed_waiters:
                nxt = timed_waiters[0]
                nxt.timed_out = True
                if nxt is me:
                    me.state = "running"
                    return False
                self._hand_over(me, nxt, "timeout")
                self._park(me)
                return not self._consume_timeout(me)
            # every thread waits for another one
            msg = "all %d threads of the simulated process wait for each other (%s)" % (
                sum(1 for t in self.all if t.state != "done"), why)
            if me is self.main:
                me.state = "running"
                raise SimDeadlock(msg)
            self.deadlocked = msg
            self._hand_over(me, self.main, "deadlock")
            self._park(me)          # (released only when the process ends)
            return True
        nxt = self._choose(pool)
        if nxt is me:
            me.state = "running"
            return True
        self._hand_over(me, nxt, why)
        self._park(me)
        return not self._consume_timeout(me)

    @staticmethod
    def _consume_timeout(me):
        if me.timed_out is True:
            me.timed_out = False
            return True
        me.timed_out = False
        return False

    # -- used by the step clock ------------------------------------------------
    def on_line(self, frame):
        if self.lines < self.next_at:
            return
        if self.stopped or not self.live_others():
            self.next_at = self.lines + 50
            return
        me = self.me()
        if me is None or me.bypass or me.state != "running":
            return
        # pre-emptions come in bursts (gaps of a few lines: race windows are one or two lines wide) separated by
        # long undisturbed stretches, and there are at most MAX_PREEMPT of them per op: the cost of simulating a
        # threaded program stays within a small factor of running it
        self.preemptions += 1
        if self.preemptions > self.MAX_PREEMPT:
            self.next_at = 1 << 62
            return
        r = self.rng.random()
        if r < self.p_burst:
            gap = self.rng.choice((1, 1, 2, 3, 5, 8))
        else:
            gap = int(self.rng.choice((40, 150, 600, 2500, 10000, 40000)) * (0.5 + self.rng.random()))
        self.next_at = self.lines + gap
        # not while the standard library holds one of its own locks around a call-back into the repository
        f = frame.f_back
        depth = 0
        while f is not None and depth < 60:
            fn = f.f_code.co_filename
            if fn.endswith(("logging/__init__.py", "logging/handlers.py")):
                return
            f = f.f_back
            depth += 1
        self.switch(me, "ready", why="preempt")

    # -- used by the primitives ---------------------------------------------------
    def block_until(self, pred, why="", timed=False):
        """True: pred holds and this thread runs; False: a timed wait ran out; None: not a simulated thread."""
        me = self.me()
        if me is None or me.bypass or self.stopped:
            return None
        while not self._true(pred):
            if not self.switch(me, "blocked", pred, why, timed):
                return False
        return True

    def yield_(self, why="yield"):
        me = self.me()
        if me is None or me.bypass or self.stopped:
            return
        if self.live_others():
            self.switch(me, "ready", why=why)

    # -- threads ---------------------------------------------------------------------
    def start_thread(self, th):
        st = _ST(len(self.all), th.name, th)
        self.all.append(st)
        self.started += 1
        orig_run = th.run
        sched = self

        def run():
            st.ident = _REAL["get_ident"]()
            sched.by_ident[st.ident] = st
            st.gate.acquire()               # parked until the scheduler picks this thread
            try:
                if st.killed:
                    return
                st.state = "running"
                orig_run()
            except ThreadKilled:
                pass
            finally:
                sched._finish(st)
        th.run = run
        th._daemonic = True                 # a parked thread must never keep the harness process alive
        me = self.me()
        if me is not None:
            me.bypass += 1
        try:
            _REAL["start"](th)
        finally:
            if me is not None:
                me.bypass -= 1
        return st

    def _finish(self, st):
        st.state = "done"
        if self.stopped or st.killed or self.holder is not st:
            return
        out, last, timed = self._runnable(exclude=st)
        pool = out or last
        if pool:
            self._hand_over(st, self._choose(pool), "exit")
        elif timed:
            timed[0].timed_out = True
            self._hand_over(st, timed[0], "timeout")
        elif self.main.state != "done" and self.main is not st:
            self.deadlocked = "the last runnable thread ended while every other thread waits"
            self._hand_over(st, self.main, "deadlock")

    def join(self, th, timeout=None):
        st = next((t for t in self.all if t.thread is th), None)
        me = self.me()
        if st is None or me is None or me.bypass or self.stopped:
            return _REAL["join"](th, timeout)
        r = self.block_until(lambda: st.state == "done", "join", timed=timeout is not None)
        if r is None:
            return _REAL["join"](th, timeout)
        if r:
            me.bypass += 1
            try:
                _REAL["join"](th, 10)
            finally:
                me.bypass -= 1
        return None

    # -- end of an op / of the process ----------------------------------------------------
    def drain(self):
        """The op's call has returned: background threads run on until they finish or block."""
        me = self.me()
        if me is None or self.stopped:
            return
        for _ in range(100000):
            out, _last, _timed = self._runnable(exclude=me)
            if not out:
                break
            try:
                self.switch(me, "draining", why="drain")
            except SimDeadlock:
                break

    def shutdown(self):
        """The simulated process ends: parked threads never run again."""
        import logging
        self.stopped = True
        prev = logging.root.manager.disable
        logging.disable(logging.CRITICAL)       # concurrent.futures logs the unwinding of a killed worker
        try:
            for t in self.all:
                if t is self.main or t.state == "done":
                    continue
                t.killed = True
                try:
                    t.gate.release()
                except RuntimeError:
                    pass
            for t in self.all:
                if t.thread is not None:
                    try:
                        _REAL["join"](t.thread, 5)
                    except RuntimeError:
                        pass
                    if t.thread.is_alive() and __import__("os").environ.get("VERIF_DEBUG_THREADS"):
                        import traceback
                        fr = sys._current_frames().get(t.ident)
                        sys.__stderr__.write("STUCK %s state=%s killed=%s\n%s\n" % (
                            t.name, t.state, t.killed, "".join(traceback.format_stack(fr)) if fr else "?"))
        finally:
            logging.disable(prev)


# ---------------------------------------------------------------------------
# primitives
# ---------------------------------------------------------------------------

class SimLock:
    """threading.Lock whose blocking acquire parks the thread with the scheduler instead of in the kernel."""

    def __init__(self):
        self._l = _REAL_ALLOC()

    def acquire(self, blocking=True, timeout=-1):
        if self._l.acquire(False):
            return True
        if not blocking:
            return False
        sch = ACTIVE
        if sch is None:
            return self._l.acquire(True, timeout)
        timed = timeout is not None and timeout >= 0
        while True:
            r = sch.block_until(lambda: not self._l.locked(), "lock", timed=timed)
            if r is None:
                return self._l.acquire(True, timeout)
            if r is False:
                return False
            if self._l.acquire(False):
                return True

    __enter__ = acquire

    def release(self):
        self._l.release()

    def __exit__(self, *a):
        self._l.release()

    def locked(self):
        return self._l.locked()

    def _at_fork_reinit(self):
        self._l._at_fork_reinit()

    def __repr__(self):
        return "<SimLock %s>" % ("locked" if self._l.locked() else "unlocked")


class SimSimpleQueue:
    """queue.SimpleQueue (the C type cannot be taught to park): same interface on a deque."""

    def __init__(self):
        self._d = collections.deque()

    def put(self, item, block=True, timeout=None):
        self._d.append(item)

    put_nowait = put

    def get(self, block=True, timeout=None):
        if self._d:
            return self._d.popleft()
        if not block:
            raise _queue.Empty
        sch = ACTIVE
        while True:
            r = sch.block_until(lambda: bool(self._d), "queue", timed=timeout is not None) if sch is not None else None
            if r is None:
                # no scheduler (the seam went inert while this object lives on): poll
                t0 = _time.monotonic()
                while not self._d:
                    if timeout is not None and _time.monotonic() - t0 > timeout:
                        raise _queue.Empty
                    _REAL["sleep"](0.001)
                return self._d.popleft()
            if r is False:
                raise _queue.Empty
            if self._d:
                return self._d.popleft()

    def get_nowait(self):
        return self.get(False)

    def empty(self):
        return not self._d

    def qsize(self):
        return len(self._d)

    __class_getitem__ = classmethod(lambda cls, item: cls)


SLEEP_HOOK = None       # the world advances its simulated clock here


def _sim_sleep(secs):
    if SLEEP_HOOK is not None:
        SLEEP_HOOK(secs)
    sch = ACTIVE
    if sch is not None:
        sch.yield_("sleep")
    return None          # simulated time: a sleep costs nothing real


def _thread_start(self):
    sch = ACTIVE
    if sch is None or sch.stopped or sch.me() is None:
        return _REAL["start"](self)
    if not self._initialized:
        raise RuntimeError("thread.__init__() not called")
    if self._started.is_set():
        raise RuntimeError("threads can only be started once")
    sch.start_thread(self)
    if sch.on_first_thread is not None:
        cb, sch.on_first_thread = sch.on_first_thread, None
        cb()
    return None


def _thread_join(self, timeout=None):
    sch = ACTIVE
    if sch is None:
        return _REAL["join"](self, timeout)
    return sch.join(self, timeout)


class Seam:
    """Installed by the world around every op; creates the process's scheduler lazily at the first
    Thread.start and keeps it for the lifetime of the simulated process."""

    def __init__(self):
        self.sched = None
        self.installed = False
        self.seed = 0
        self.p = 0.15
        self.on_first_thread = None

    def install(self, seed, p, on_first_thread):
        global ACTIVE
        self.seed, self.p, self.on_first_thread = seed, p, on_first_thread
        threading.Thread.start = _thread_start
        threading.Thread.join = _thread_join
        threading.Lock = SimLock
        threading._allocate_lock = SimLock
        threading._CRLock = None
        threading.RLock = threading._RLock
        _queue.SimpleQueue = SimSimpleQueue
        _time.sleep = _sim_sleep
        if self.sched is None:
            self.sched = Scheduler(seed, p)
        else:
            self.sched.rng = random.Random(seed)
            self.sched.p = p
            self.sched.p_burst = 0.4 + 0.5 * p
            self.sched.preemptions = 0
            self.sched.next_at = self.sched.lines + 1
        self.sched.on_first_thread = on_first_thread if self.sched.started == 0 else None
        ACTIVE = self.sched
        self.installed = True

    def uninstall(self):
        global ACTIVE
        if not self.installed:
            return
        if self.sched is not None and self.sched.started:
            self.sched.drain()
        ACTIVE = None
        threading.Thread.start = _REAL["start"]
        threading.Thread.join = _REAL["join"]
        threading.Lock = _REAL["Lock"]
        threading._allocate_lock = _REAL["_allocate_lock"]
        threading._CRLock = _REAL["_CRLock"]
        threading.RLock = _REAL["RLock"]
        _queue.SimpleQueue = _REAL["SimpleQueue"]
        _time.sleep = _REAL["sleep"]
        self.installed = False

    def process_ends(self):
        if self.sched is not None:
            if self.sched.started:
                self.sched.shutdown()
            self.sched = None

    def stats(self):
        s = self.sched
        return (s.started, s.switches) if s is not None else (0, 0)
