"""Self-tests of the harness: determinism (same seed => same event log, in a
fresh interpreter, at another worker count, under another PYTHONHASHSEED) and
sensitivity (a catalogue of property-breaking patches must each be caught)."""
import json
import os
import shutil
import subprocess
import sys
import tempfile
import time

from . import proc, runner

HERE = runner.VERIF_DIR
SIMCHECK = os.path.join(HERE, "simcheck")


def digests(pid, tier, runs, workers, seed):
    snap = proc.RepoSnapshot()
    proc.install(snap)
    prop = runner.load_prop(pid)
    recs = runner.run_batch(pid, tier, seed, runs, workers, prop.n_fixed(tier) if runs else prop.n_fixed(tier))
    bad = [r for r in recs if "harness_error" in r]
    if bad:
        print(json.dumps({"harness_error": bad[0]["harness_error"]}))
        return 2
    print(json.dumps({str(r["idx"]): r["digest"] for r in recs}))
    return 0


def _digest_run(pid, runs, workers, hashseed, seed):
    env = dict(os.environ, PYTHONHASHSEED=str(hashseed))
    p = subprocess.run([sys.executable, SIMCHECK, "digests", pid, "--runs", str(runs), "--workers", str(workers),
                        "--seed", str(seed)], capture_output=True, text=True, env=env, timeout=3000)
    if p.returncode != 0:
        raise proc.HarnessError("digest run failed for %s: %s %s" % (pid, p.stdout[-800:], p.stderr[-800:]))
    return json.loads(p.stdout.strip().splitlines()[-1])


def determinism(runs, props=None, seed=None):
    seed = seed if seed is not None else int(os.environ.get("VERIF_SEED", "20261004") or 0)
    props = props or list(runner.PROPS)
    ok = True
    t0 = time.time()
    for pid in props:
        n = runs if pid not in ("C11",) else max(4, runs // 4)
        a = _digest_run(pid, n, 16, 0, seed)
        b = _digest_run(pid, n, 3, 424242, seed)
        diff = [k for k in a if a[k] != b.get(k)]
        if diff or set(a) != set(b):
            ok = False
            print("NONDETERMINISM property=%s runs differing: %s" % (pid, diff[:10]))
        else:
            print("determinism %s: %d runs identical (16 workers/PYTHONHASHSEED=0 vs 3 workers/PYTHONHASHSEED=424242, fresh interpreters)" % (pid, len(a)))
    print("determinism self-test %s in %.1fs" % ("passed" if ok else "FAILED", time.time() - t0))
    return 0 if ok else 2


# ---------------------------------------------------------------------------
# sensitivity: the mutant catalogue
# ---------------------------------------------------------------------------

def _mutant_dirs():
    out = []
    for base in ("mutants", "seeded"):
        d = os.path.join(HERE, base)
        if not os.path.isdir(d):
            continue
        for name in sorted(os.listdir(d)):
            p = os.path.join(d, name)
            if os.path.isfile(os.path.join(p, "meta.json")) and os.path.isfile(os.path.join(p, "patch.diff")):
                out.append((base + "/" + name, p))
    return out


def mutants(only=None, tier="quick", check_tests=True):
    """Apply each catalogued patch to a scratch copy of the repository (never to
    /repo), confirm the baseline suite still passes there, and require the
    property's check to print a VIOLATION against it."""
    repo = proc.REPO_DIR
    results = []
    for name, path in _mutant_dirs():
        if only and only not in name:
            continue
        meta = json.load(open(os.path.join(path, "meta.json")))
        pids = meta["property"] if isinstance(meta["property"], list) else [meta["property"]]
        scratch = tempfile.mkdtemp(prefix="cr-mutant-", dir="/dev/shm" if os.path.isdir("/dev/shm") else None)
        try:
            dst = os.path.join(scratch, "repo")
            shutil.copytree(repo, dst, ignore=shutil.ignore_patterns(".git", "__pycache__", ".pytest_cache", ".benchmarks"))
            ap = subprocess.run(["patch", "-p1", "-s", "-d", dst, "-i", os.path.join(path, "patch.diff")],
                                capture_output=True, text=True)
            if ap.returncode != 0:
                results.append((name, "PATCH-FAILED", ap.stdout + ap.stderr))
                continue
            tests_ok = None
            if check_tests:
                tp = subprocess.run([sys.executable, "-m", "pytest", "-q", "-x", "-p", "no:cacheprovider"], cwd=dst,
                                    capture_output=True, text=True, timeout=900,
                                    env=dict(os.environ, PYTHONDONTWRITEBYTECODE="1"))
                tests_ok = tp.returncode == 0
            caught = []
            for pid in pids:
                env = dict(os.environ, VERIF_REPO_DIR=dst)
                cp = subprocess.run([sys.executable, SIMCHECK, "check", pid, "--tier", tier, "--no-evidence"],
                                    capture_output=True, text=True, env=env, timeout=3000)
                hit = cp.returncode == 1 and ("VIOLATION property=%s" % pid) in cp.stdout
                caught.append((pid, hit, cp.returncode, [l for l in cp.stdout.splitlines() if l.startswith("  what") or l.startswith("  invariant")][:2]))
            verdict = "CAUGHT" if all(c[1] for c in caught) else "MISSED"
            if verdict == "MISSED" and meta.get("expected_miss"):
                verdict = "MISSED-AS-RECORDED (%s)" % meta["expected_miss"]
            if tests_ok is False:
                verdict += " (baseline suite FAILS with this patch: not a realistic mutant)"
            results.append((name, verdict, caught))
        finally:
            shutil.rmtree(scratch, ignore_errors=True)
    missed = 0
    for name, verdict, info in results:
        print("%-48s %s" % (name, verdict))
        if isinstance(info, list):
            for pid, hit, rc, lines in info:
                print("      %s rc=%s %s" % (pid, rc, " | ".join(x.strip() for x in lines)[:300]))
        else:
            print("      " + str(info)[:300])
        if not verdict.startswith(("CAUGHT", "MISSED-AS-RECORDED")):
            missed += 1
    print("mutants: %d, not caught: %d" % (len(results), missed))
    # replays written while checking mutants describe the scratch copy, not /repo
    return 0 if missed == 0 else 1


# ---------------------------------------------------------------------------
# soundness: property-preserving refactors must not raise an alarm
# ---------------------------------------------------------------------------

def benign(only=None, tier="quick"):
    repo = proc.REPO_DIR
    base = os.path.join(HERE, "benign")
    alarms = 0
    n = 0
    for name in sorted(os.listdir(base)) if os.path.isdir(base) else []:
        path = os.path.join(base, name)
        if not os.path.isfile(os.path.join(path, "patch.diff")) or (only and only not in name):
            continue
        meta = json.load(open(os.path.join(path, "meta.json")))
        scratch = tempfile.mkdtemp(prefix="cr-benign-", dir="/dev/shm" if os.path.isdir("/dev/shm") else None)
        try:
            dst = os.path.join(scratch, "repo")
            shutil.copytree(repo, dst, ignore=shutil.ignore_patterns(".git", "__pycache__", ".pytest_cache", ".benchmarks"))
            ap = subprocess.run(["patch", "-p1", "-s", "-d", dst, "-i", os.path.join(path, "patch.diff")], capture_output=True, text=True)
            if ap.returncode != 0:
                print("%-52s PATCH-FAILED %s" % (name, (ap.stdout + ap.stderr)[:200]))
                alarms += 1
                continue
            tp = subprocess.run([sys.executable, "-m", "pytest", "-q", "-x", "-p", "no:cacheprovider"], cwd=dst,
                                capture_output=True, text=True, timeout=900, env=dict(os.environ, PYTHONDONTWRITEBYTECODE="1"))
            res = []
            for pid in meta["properties"]:
                n += 1
                cp = subprocess.run([sys.executable, SIMCHECK, "check", pid, "--tier", tier, "--no-evidence"],
                                    capture_output=True, text=True, env=dict(os.environ, VERIF_REPO_DIR=dst), timeout=3000)
                bad = cp.returncode != 0 or "VIOLATION" in cp.stdout
                if bad:
                    alarms += 1
                res.append("%s:%s" % (pid, "ALARM rc=%d %s" % (cp.returncode, " | ".join(
                    l.strip() for l in cp.stdout.splitlines() if l.startswith("  what") or l.startswith("HARNESS"))[:400]) if bad else "silent"))
            print("%-52s tests=%s  %s" % (name, "pass" if tp.returncode == 0 else "FAIL", "  ".join(res)))
        finally:
            shutil.rmtree(scratch, ignore_errors=True)
    print("benign refactors: %d property runs, alarms: %d" % (n, alarms))
    return 0 if alarms == 0 else 1
