"""Exact, JSON-native encoding of Python literals.

The oracles compare *type- and bit-identical* values (tuple vs list, 1 vs 1.0,
True vs 1, -0.0 vs 0.0), and replay files must embed games literally.  `enc`
maps a literal to plain JSON; `dec` inverts it exactly; `canon` is a short
string usable as a dict key / for hashing.
"""
import hashlib
import json


def enc(o):
    if o is None or isinstance(o, (bool, str)):
        return o
    if isinstance(o, int):
        if -(2 ** 53) < o < 2 ** 53:
            return o
        return ["I", str(o)]
    if isinstance(o, float):
        return ["F", o.hex()]
    if isinstance(o, list):
        return ["L"] + [enc(x) for x in o]
    if isinstance(o, tuple):
        return ["T"] + [enc(x) for x in o]
    if isinstance(o, dict):
        return ["D"] + [[enc(k), enc(v)] for k, v in o.items()]
    if isinstance(o, (set, frozenset)):
        return ["S"] + sorted((enc(x) for x in o), key=lambda e: json.dumps(e, sort_keys=True))
    if isinstance(o, complex):
        return ["C", o.real.hex(), o.imag.hex()]
    return ["O", type(o).__name__, repr(o)]


def dec(e):
    if e is None or isinstance(e, (bool, str, int)):
        return e
    tag = e[0]
    if tag == "I":
        return int(e[1])
    if tag == "F":
        return float.fromhex(e[1])
    if tag == "L":
        return [dec(x) for x in e[1:]]
    if tag == "T":
        return tuple(dec(x) for x in e[1:])
    if tag == "D":
        return {dec(k): dec(v) for k, v in e[1:]}
    if tag == "S":
        return set(dec(x) for x in e[1:])
    if tag == "C":
        return complex(float.fromhex(e[1]), float.fromhex(e[2]))
    raise ValueError("cannot decode %r" % (e,))


def canon(o):
    """Canonical string of a *decoded* literal (type-exact)."""
    return json.dumps(enc(o), separators=(",", ":"))


def canon_e(e):
    """Canonical string of an already encoded literal."""
    return json.dumps(e, separators=(",", ":"))


def h(s):
    if isinstance(s, str):
        s = s.encode()
    return hashlib.sha256(s).hexdigest()[:16]


def same(a, b):
    """Type- and bit-identical comparison of two literals."""
    return canon(a) == canon(b)


def short(o, n=300):
    r = repr(o)
    return r if len(r) <= n else r[: n - 20] + "...(%d chars)" % len(r)
