#!/venv/bin/python
"""Intake of an independently written property-breaking change: copy it to /verif/seeded/<name>/ and confirm,
in a scratch copy of /repo (never in /repo), that (1) the patch applies, (2) the baseline suite passes with it,
(3) the demonstration fails with it, (4) the demonstration passes without it.  Writes meta.json."""
import json, os, shutil, subprocess, sys, tempfile

def run(cmd, cwd):
    p = subprocess.run(cmd, cwd=cwd, capture_output=True, text=True, timeout=1800, env=dict(os.environ, PYTHONDONTWRITEBYTECODE="1"))
    return p.returncode, (p.stdout + p.stderr)[-600:]

def main():
    src, name, prop = sys.argv[1], sys.argv[2], sys.argv[3]
    needs = sys.argv[4] if len(sys.argv) > 4 else ""
    dst = os.path.join("/verif/seeded", name)
    os.makedirs(dst, exist_ok=True)
    for fn in ("patch.diff", "demo.py", "notes.md"):
        shutil.copy(os.path.join(src, fn), os.path.join(dst, fn))
    scratch = tempfile.mkdtemp(prefix="cr-intake-", dir="/dev/shm")
    try:
        repo = os.path.join(scratch, "repo")
        shutil.copytree("/repo", repo, ignore=shutil.ignore_patterns(".git", "__pycache__", ".pytest_cache", ".benchmarks"))
        os.makedirs(os.path.join(repo, "MUTANT"), exist_ok=True)
        shutil.copy(os.path.join(dst, "demo.py"), os.path.join(repo, "MUTANT", "demo.py"))
        rc_clean, out_clean = run(["/venv/bin/python", "MUTANT/demo.py"], repo)
        rc_patch, out_patch = run(["patch", "-p1", "-s", "-i", os.path.join(dst, "patch.diff")], repo)
        rc_tests, out_tests = run(["/venv/bin/python", "-m", "pytest", "-q", "-p", "no:cacheprovider"], repo)
        rc_demo, out_demo = run(["/venv/bin/python", "MUTANT/demo.py"], repo)
    finally:
        shutil.rmtree(scratch, ignore_errors=True)
    ok = rc_clean == 0 and rc_patch == 0 and rc_tests == 0 and rc_demo != 0
    meta = {"property": prop, "needs": needs, "origin": "independent sub-agent given only the property text and a scratch worktree",
            "confirmed": ok,
            "what_was_run": {
                "demo on clean copy of /repo": {"rc": rc_clean, "tail": out_clean[-200:]},
                "patch -p1": {"rc": rc_patch},
                "baseline suite with patch": {"rc": rc_tests, "tail": out_tests[-120:]},
                "demo with patch": {"rc": rc_demo, "tail": out_demo[-300:]}}}
    json.dump(meta, open(os.path.join(dst, "meta.json"), "w"), indent=1)
    print(name, "CONFIRMED" if ok else "NOT CONFIRMED", rc_clean, rc_patch, rc_tests, rc_demo)

main()
