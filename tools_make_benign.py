#!/venv/bin/python
"""Property-preserving refactors (/verif/benign/<name>/patch.diff): the checks must stay silent on every one."""
import difflib, json, os, sys
REPO = os.environ.get("VERIF_REPO_DIR", "/repo")
OUT = os.path.join(os.path.dirname(os.path.abspath(__file__)), "benign")
B = []
def ben(name, props, why, edits):
    B.append((name, props, why, edits))

ben("report_built_then_written_with_pathlib", ["C16", "C12"], "same bytes, one write through pathlib",
    [("conditionalrewards.py", "    with open(f\"outputs/{file_name}.txt\", \"w\") as file:\n        for name, game in game_resuts.items():",
      "    import io, pathlib\n    file = io.StringIO()\n    if True:\n        for name, game in game_resuts.items():"),
     ("conditionalrewards.py", "            file.write(f\"Total time              : {total_time}\\n\")\n",
      "            file.write(f\"Total time              : {total_time}\\n\")\n    pathlib.Path(f\"outputs/{file_name}.txt\").write_text(file.getvalue())\n")])
ben("run_games_perf_counter_and_extra_logging", ["C12", "C16", "C10"], "another clock source, more log lines, same results",
    [("conditionalrewards.py", "            start = time.time()\n", "            start = time.perf_counter()\n            logging.debug(f\"clock at start: {start}\")\n"),
     ("conditionalrewards.py", "            end = time.time()\n", "            end = time.perf_counter()\n            logging.info(f\"finished {name}\")\n")])
ben("write_robots_with_block", ["C11", "C15", "C17"], "context manager instead of explicit close",
    [("roberta_generator.py", "    my_file = open(file_name, \"w\")\n\n    write_preamble(my_file, length, width, moves, rewards, loose_tiles)\n    write_robot_A(my_file, length, width, moves, rewards, loose_tiles, prob_tile_break)\n    write_robot_B(my_file, length, width, moves, rewards, loose_tiles, prob_tile_break,\n                  prob_robot_break)\n    write_robot_C(my_file, length, width, moves, rewards, loose_tiles, prob_tile_break,\n                  prob_robot_break, prob_light_break)\n    my_file.close()\n",
      "    with open(file_name, \"w\") as my_file:\n        write_preamble(my_file, length, width, moves, rewards, loose_tiles)\n        write_robot_A(my_file, length, width, moves, rewards, loose_tiles, prob_tile_break)\n        write_robot_B(my_file, length, width, moves, rewards, loose_tiles, prob_tile_break,\n                      prob_robot_break)\n        write_robot_C(my_file, length, width, moves, rewards, loose_tiles, prob_tile_break,\n                      prob_robot_break, prob_light_break)\n")])
ben("file_name_fields_reordered_and_padded", ["C17", "C11", "C15"], "same information in the name, other order, zero padded percentages",
    [("roberta_generator.py", "    return str(round(prob*100))\n", "    return \"%02d\" % round(prob*100)\n"),
     ("roberta_generator.py", "    file_name = \"inputs/robot_\" + str(seed) + \"_\" + \\\n                \"w\" + str(width) + \"_\" + \\\n                \"l\" + str(length) + \"_\" + \\\n                \"r\" + str(max_reward) + \"_\" + \\\n",
      "    file_name = \"inputs/robot_\" + str(seed) + \"_\" + \\\n                \"l\" + str(length) + \"_\" + \\\n                \"w\" + str(width) + \"_\" + \\\n                \"r\" + str(max_reward) + \"_\" + \\\n")])
ben("solver_deep_copies_and_renames_loop_variable", ["C10", "C12", "C11"], "defensive deep copy of the whole description; value-iteration local renamed (divergence introspection goes blind, must stay silent)",
    [("tad.py", "        self.rewards = rewards\n        self.players = players\n        self.transition_list = transition_list\n        self.final_states = final_states\n",
      "        import copy\n        self.rewards = copy.deepcopy(rewards)\n        self.players = copy.deepcopy(players)\n        self.transition_list = copy.deepcopy(transition_list)\n        self.final_states = copy.deepcopy(final_states)\n"),
     ("tad.py", "        diff = 1\n        logging.debug(\"Value iteration for reachability:\")\n        logging.debug(\"-\"*80)\n        i = 0\n        while diff > self.threshold:",
      "        delta = 1\n        logging.debug(\"Value iteration for reachability:\")\n        logging.debug(\"-\"*80)\n        i = 0\n        while delta > self.threshold:"),
     ("tad.py", "                state.reach_probability = reach_probability_next\n            diff = max_diff\n", "                state.reach_probability = reach_probability_next\n            delta = max_diff\n")])
ben("check_input_other_messages_and_order", ["C15", "C17"], "range checks reordered, messages reworded, still ValueError before any write",
    [("roberta_generator.py", "    if seed < 0:\n        raise ValueError(\"The seed must be a nonnegative integer\")\n    if width <= 0:\n        raise ValueError(\"The width must be a positive integer\")\n",
      "    if width <= 0:\n        raise ValueError(\"width: positive integer expected\")\n    if seed < 0:\n        raise ValueError(\"seed: nonnegative integer expected\")\n")])
ben("reader_strips_and_checks_empty", ["C16", "C11", "C12"], "reader strips whitespace and rejects empty files with ValueError",
    [("conditionalrewards.py", "        contents = file.read()\n        dictionary = eval(contents)\n",
      "        contents = file.read().strip()\n        if not contents:\n            raise ValueError(\"The file is empty.\")\n        dictionary = eval(contents)\n")])
ben("threshold_tightened", ["C10", "C12", "C16", "C11"], "solver threshold 1e-7: every number changes, reference moves along",
    [("tad.py", "        solver = Solver(threshold=10**(-6), state_list=state_list)\n", "        solver = Solver(threshold=10**(-7), state_list=state_list)\n")])

ben("generator_writes_temp_then_renames", ["C11", "C15", "C17"], "atomic replace: write <name>.tmp, fsync-free os.replace onto the target",
    [("roberta_generator.py", "    my_file = open(file_name, \"w\")\n", "    import os\n    final_name, file_name = file_name, file_name + \".tmp\"\n    my_file = open(file_name, \"w\")\n"),
     ("roberta_generator.py", "    my_file.close()\n", "    my_file.close()\n    os.replace(file_name, final_name)\n")])
ben("report_writes_temp_then_renames_and_keeps_log", ["C16", "C12"], "atomic replace of the report plus an auxiliary run log under outputs/.log/",
    [("conditionalrewards.py", "    with open(f\"outputs/{file_name}.txt\", \"w\") as file:\n        for name, game in game_resuts.items():",
      "    import os\n    os.makedirs(\"outputs/.log\", exist_ok=True)\n    with open(\"outputs/.log/runs.log\", \"a\", encoding=\"utf-8\") as log:\n        log.write(file_name + \"\\n\")\n    with open(f\"outputs/{file_name}.txt.part\", \"w\") as file:\n        for name, game in game_resuts.items():"),
     ("conditionalrewards.py", "            file.write(f\"Total time              : {total_time}\\n\")\n",
      "            file.write(f\"Total time              : {total_time}\\n\")\n    os.replace(f\"outputs/{file_name}.txt.part\", f\"outputs/{file_name}.txt\")\n")])

ben("generator_removes_partial_file_on_ctrl_c", ["C11", "C15", "C17"], "Ctrl-C while writing: the partial file is removed and the interrupt re-raised (a kill leaves the torn file, as before)",
    [("roberta_generator.py", "    my_file = open(file_name, \"w\")\n\n    write_preamble(my_file, length, width, moves, rewards, loose_tiles)\n    write_robot_A(my_file, length, width, moves, rewards, loose_tiles, prob_tile_break)\n    write_robot_B(my_file, length, width, moves, rewards, loose_tiles, prob_tile_break,\n                  prob_robot_break)\n    write_robot_C(my_file, length, width, moves, rewards, loose_tiles, prob_tile_break,\n                  prob_robot_break, prob_light_break)\n    my_file.close()\n",
      "    import os\n    my_file = open(file_name, \"w\")\n    try:\n        write_preamble(my_file, length, width, moves, rewards, loose_tiles)\n        write_robot_A(my_file, length, width, moves, rewards, loose_tiles, prob_tile_break)\n        write_robot_B(my_file, length, width, moves, rewards, loose_tiles, prob_tile_break,\n                      prob_robot_break)\n        write_robot_C(my_file, length, width, moves, rewards, loose_tiles, prob_tile_break,\n                      prob_robot_break, prob_light_break)\n    except KeyboardInterrupt:\n        my_file.close()\n        os.remove(file_name)\n        raise\n    my_file.close()\n")])
ben("solver_cli_own_sigint_handler_and_exit_hook", ["C16", "C12"], "main() installs a SIGINT handler that exits with status 130 and an atexit hook that only logs",
    [("conditionalrewards.py", "    parser = init_parser()\n    parsed_args = parser.parse_args()\n    set_logger(parsed_args.log_level)\n",
      "    import atexit, signal, sys\n\n    def _on_sigint(signum, frame):\n        logging.error(\"interrupted\")\n        sys.exit(130)\n    signal.signal(signal.SIGINT, _on_sigint)\n    atexit.register(logging.debug, \"conditionalrewards finished\")\n    parser = init_parser()\n    parsed_args = parser.parse_args()\n    set_logger(parsed_args.log_level)\n")])
ben("report_closed_by_exit_stack", ["C16", "C12"], "report written through contextlib.ExitStack; recursion limit raised and cwd-independent os calls at start-up",
    [("conditionalrewards.py", "    with open(f\"outputs/{file_name}.txt\", \"w\") as file:\n        for name, game in game_resuts.items():",
      "    import contextlib, sys\n    sys.setrecursionlimit(max(sys.getrecursionlimit(), 5000))\n    with contextlib.ExitStack() as stack:\n        file = stack.enter_context(open(f\"outputs/{file_name}.txt\", \"w\"))\n        for name, game in game_resuts.items():")])

ben("run_games_on_a_thread_pool", ["C12", "C16", "C10"], "one task per game on a ThreadPoolExecutor; every task has its own flag and its own result dict, entries are assembled in file order",
    [("conditionalrewards.py", '    game_results = {}\n    for name, game in games_dict.items():\n        prev_game_had_solution = True\n', '    def one(name, game):\n        game_results = {}\n        prev_game_had_solution = True\n'),
     ("conditionalrewards.py", '                "prob_min_rew": reach_min_rewards\n            }\n    return game_results\n', '                "prob_min_rew": reach_min_rewards\n            }\n        return game_results\n\n    from concurrent.futures import ThreadPoolExecutor\n    all_results = {}\n    with ThreadPoolExecutor(max_workers=4) as pool:\n        for fut in [pool.submit(one, n_, g_) for n_, g_ in games_dict.items()]:\n            all_results.update(fut.result())\n    return all_results\n')])


ben("paths_relative_to_script_directory", ["C16", "C12", "C11", "C17"], "outputs/ and inputs/ located next to the program file instead of the working directory (the same place in `cd repo && python tool.py`)",
    [("conditionalrewards.py", "    with open(f\"outputs/{file_name}.txt\", \"w\") as file:", "    import os\n    here = os.path.dirname(os.path.abspath(__file__))\n    with open(os.path.join(here, \"outputs\", f\"{file_name}.txt\"), \"w\") as file:"),
     ("roberta_generator.py", "    my_file = open(file_name, \"w\")\n", "    import os\n    my_file = open(os.path.join(os.path.dirname(os.path.abspath(__file__)), file_name), \"w\")\n")])


ben("report_extra_line_and_board_comment_legend", ["C16", "C12", "C15", "C11"], "one more line per report block, a legend line in the board comment, one more field per result entry",
    [("conditionalrewards.py", "            file.write(f\"Total time              : {total_time}\\n\")\n",
      "            file.write(f\"Total time              : {total_time}\\n\")\n            file.write(f\"Solver threshold        : 1e-06\\n\")\n"),
     ("conditionalrewards.py", "                \"prob_min_rew\": reach_min_rewards\n", "                \"prob_min_rew\": reach_min_rewards,\n                \"pruned\": prune_states\n"),
     ("roberta_generator.py", "    my_file.write(\"# Board:\\n#\")\n", "    my_file.write(\"# Board:\\n# legend: [reward|arrows(loose)]\\n#\")\n")])


def main():
    os.makedirs(OUT, exist_ok=True)
    for name, props, why, edits in B:
        files = {}
        for fn, old, new in edits:
            src = files.get(fn)
            if src is None:
                src = open(os.path.join(REPO, fn)).read()
                files.setdefault(fn + "#orig", src)
            if src.count(old) != 1:
                print("!! %s: pattern occurs %d times in %s" % (name, src.count(old), fn)); sys.exit(1)
            files[fn] = src.replace(old, new)
        d = os.path.join(OUT, name)
        os.makedirs(d, exist_ok=True)
        with open(os.path.join(d, "patch.diff"), "w") as f:
            for fn in sorted(k for k in files if not k.endswith("#orig")):
                f.writelines(difflib.unified_diff(files[fn + "#orig"].splitlines(True), files[fn].splitlines(True), "a/" + fn, "b/" + fn))
        json.dump({"properties": props, "why_benign": why}, open(os.path.join(d, "meta.json"), "w"), indent=1)
    print("wrote %d benign refactors" % len(B))
main()
