#!/venv/bin/python
"""Builds the sensitivity catalogue /verif/mutants/<name>/{patch.diff,meta.json} from (file, old, new) edits
against the current /repo working tree.  Run again whenever /repo changes (patches are context diffs)."""
import difflib, json, os, sys
REPO = os.environ.get("VERIF_REPO_DIR", "/repo")
OUT = os.path.join(os.path.dirname(os.path.abspath(__file__)), "mutants")

M = []
def mut(name, prop, needs, edits):
    M.append((name, prop, needs, edits))

# ---- C10 -------------------------------------------------------------------
mut("c10_fix_reverted", "C10", "one pruned solve of a game with a dead branch, then look at the caller's lists",
    [("tad.py", "        self.next_states = list(self.next_states)\n", "")])
mut("c10_init_states_cached", "C10", "second solve() through the same object after a pruned solve",
    [("tad.py", "        state_list = []\n        for idx, (player, transitions, reward) in enumerate(",
      "        if getattr(self, '_state_list', None) is not None:\n            return self._state_list\n        state_list = []\n        for idx, (player, transitions, reward) in enumerate("),
     ("tad.py", "            raise ValueError(\"Missing transitions\")\n        return state_list\n",
      "            raise ValueError(\"Missing transitions\")\n        self._state_list = state_list\n        return state_list\n")])
mut("c10_final_states_sorted_in_place", "C10", "a description whose final_states are not ascending",
    [("tad.py", "        logging.info(\"Initializing stochastic game ...\")\n        self.check_game()\n",
      "        logging.info(\"Initializing stochastic game ...\")\n        self.check_game()\n        self.final_states.sort(reverse=True)\n")])
mut("c10_class_level_threshold_cache", "C10", "a solve in pruned mode followed by any solve in the same process",
    [("tad.py", "class Solver:\n    def __init__(self, state_list, threshold=10**(-6)):\n        self.state_list = state_list\n",
      "class Solver:\n    _known_dead = set()\n\n    def __init__(self, state_list, threshold=10**(-6)):\n        self.state_list = state_list\n"),
     ("tad.py", "        for state_idx in states_reaching_final:\n                state = self.state_list[state_idx]\n",
      "        for state_idx in states_reaching_final:\n                if state_idx in Solver._known_dead:\n                    continue\n                state = self.state_list[state_idx]\n"),
     ("tad.py", "            state.expected_reach_min_rewards = state.reach_probability\n",
      "            state.expected_reach_min_rewards = state.reach_probability\n            if state.reach_probability == 0 and prune_states:\n                Solver._known_dead.add(state.idx)\n")])
mut("c10_solve_result_memoised_on_object", "C10", "second solve() through the same object after the caller edited the lists the first one returned",
    [("tad.py", "        logging.info(\"Initializing stochastic game ...\")\n        self.check_game()\n",
      "        if getattr(self, '_solved', None) is not None and self._solved[0] == self.prune_states:\n            return self._solved[1]\n        logging.info(\"Initializing stochastic game ...\")\n        self.check_game()\n"),
     ("tad.py", "        logging.info(\"Done!\")\n        return final_strategies, reachability_strategies, rewards, probabilities, n_iterations_reach, n_iterations_rew, expected_reach_min_rewards, expected_rewards_min_reach\n",
      "        logging.info(\"Done!\")\n        self._solved = (self.prune_states, (final_strategies, reachability_strategies, rewards, probabilities, n_iterations_reach, n_iterations_rew, expected_reach_min_rewards, expected_rewards_min_reach))\n        return self._solved[1]\n")])
# ---- C12 -------------------------------------------------------------------
mut("c12_flag_reset_hoisted", "C12", "a failing game followed by a solvable one in the same batch",
    [("conditionalrewards.py", "    game_results = {}\n    for name, game in games_dict.items():\n        prev_game_had_solution = True\n",
      "    game_results = {}\n    prev_game_had_solution = True\n    for name, game in games_dict.items():\n")])
mut("c12_except_narrowed_away", "C12", "a malformed or unsolvable game anywhere in the batch",
    [("conditionalrewards.py", "                except ValueError as e:\n", "                except KeyError as e:\n")])
mut("c12_name_suffix_accumulates", "C12", "two or more games in one batch",
    [("conditionalrewards.py", "    for name, game in games_dict.items():\n        prev_game_had_solution = True\n        for prune_states in [True, False]:\n",
      "    name = \"\"\n    for game_name, game in games_dict.items():\n        prev_game_had_solution = True\n        name = game_name if not name.endswith(\"_no_prune\") or len(game_results) < 4 else name\n        for prune_states in [True, False]:\n")])
mut("c12_result_resets_hoisted", "C12", "a failing game after a solvable one in the same batch (the failed entry carries the previous game's results)",
    [("conditionalrewards.py", "    game_results = {}\n    for name, game in games_dict.items():\n        prev_game_had_solution = True\n        for prune_states in [True, False]:\n            reachability_strategies = None\n            final_strategies = None\n            rewards = None\n            probabilities = None\n",
      "    game_results = {}\n    reachability_strategies = None\n    final_strategies = None\n    rewards = None\n    probabilities = None\n    for name, game in games_dict.items():\n        prev_game_had_solution = True\n        for prune_states in [True, False]:\n")])
# ---- C16 -------------------------------------------------------------------
mut("c16_append_mode", "C16", "a report already exists at the target path",
    [("conditionalrewards.py", "    with open(f\"outputs/{file_name}.txt\", \"w\") as file:", "    with open(f\"outputs/{file_name}.txt\", \"a\") as file:")])
mut("c16_rewards_rounded", "C16", "any reward or probability with more than 6 decimals",
    [("conditionalrewards.py", "            file.write(f\"Rewards                 : {game['rewards']}\\n\")",
      "            file.write(f\"Rewards                 : {[round(r, 6) for r in game['rewards']] if game['rewards'] else game['rewards']}\\n\")")])
mut("c16_oserror_swallowed", "C16", "an OSError while the report is written",
    [("conditionalrewards.py", "    if parsed_args.save_results:\n        save_results_to_file(game_results, parsed_args.file)\n",
      "    if parsed_args.save_results:\n        try:\n            save_results_to_file(game_results, parsed_args.file)\n        except OSError as e:\n            logging.error(f\"Could not save results: {e}\")\n")])
mut("c16_failed_games_omitted", "C16", "a batch containing a failing game",
    [("conditionalrewards.py", "        for name, game in game_resuts.items():\n            reachability_strategies = game[\"reachability_strategies\"]\n",
      "        for name, game in game_resuts.items():\n            if game[\"rewards\"] is None:\n                continue\n            reachability_strategies = game[\"reachability_strategies\"]\n")])
mut("c16_stem_keeps_directory_char", "C16", "an input file outside inputs/ whose directory name is a prefix of the stem rule",
    [("conditionalrewards.py", "    file_name = file_name.split(\"/\")[-1].split(\".\")[0]\n", "    file_name = file_name.split(\"/\")[-1].split(\"_\")[0].split(\".\")[0]\n")])
mut("c16_reader_coerces_probabilities", "C16", "a file whose probabilities are written as ints (1) - the reader turns them into floats",
    [("conditionalrewards.py", "        dictionary = eval(contents)\n", "        dictionary = eval(contents.replace(\"(1, \", \"(1.0, \"))\n")])
mut("c16_memoryerror_swallowed_in_save", "C16", "an allocation failure while the report is formatted/written: logged, exit status 0, report torn",
    [("conditionalrewards.py", "    if parsed_args.save_results:\n        save_results_to_file(game_results, parsed_args.file)\n",
      "    if parsed_args.save_results:\n        try:\n            save_results_to_file(game_results, parsed_args.file)\n        except MemoryError:\n            logging.error(\"Out of memory while saving the results\")\n")])
mut("c11_generic_exception_swallowed_in_writer", "C11", "any exception (allocation failure, I/O error) inside the game writers: the file is closed and main() returns normally",
    [("roberta_generator.py", "    write_preamble(my_file, length, width, moves, rewards, loose_tiles)\n    write_robot_A(my_file, length, width, moves, rewards, loose_tiles, prob_tile_break)\n    write_robot_B(my_file, length, width, moves, rewards, loose_tiles, prob_tile_break,\n                  prob_robot_break)\n    write_robot_C(my_file, length, width, moves, rewards, loose_tiles, prob_tile_break,\n                  prob_robot_break, prob_light_break)\n",
      "    try:\n        write_preamble(my_file, length, width, moves, rewards, loose_tiles)\n        write_robot_A(my_file, length, width, moves, rewards, loose_tiles, prob_tile_break)\n        write_robot_B(my_file, length, width, moves, rewards, loose_tiles, prob_tile_break,\n                      prob_robot_break)\n        write_robot_C(my_file, length, width, moves, rewards, loose_tiles, prob_tile_break,\n                      prob_robot_break, prob_light_break)\n    except MemoryError:\n        print(\"board too large for this machine\")\n")])
# ---- C11 -------------------------------------------------------------------
mut("c11_append_mode", "C11", "the target file already exists (regeneration)",
    [("roberta_generator.py", "    my_file = open(file_name, \"w\")\n", "    my_file = open(file_name, \"a\")\n")])
mut("c11_missing_complement_branch", "C11", "a board with a loose tile",
    [("roberta_generator.py", "                transition.append((prob_tile_break, loosing_state))\n                transition.append((1 - prob_tile_break, offset + i * width + j))\n",
      "                transition.append((prob_tile_break, loosing_state))\n                transition.append((1 - prob_tile_break if i + j else 1, offset + i * width + j))\n")])
mut("c11_winning_state_off_by_one", "C11", "game C only (10 groups): successor index leaves 0..n-1 on the last row",
    [("roberta_generator.py", "    total = 10\n    n_prob_groups = 6\n    n_robot_groups = 3\n\n    n_tiles = length * width\n    loosing_state = n_tiles * total\n    winning_state = n_tiles * total + 1\n",
      "    total = 10\n    n_prob_groups = 6\n    n_robot_groups = 3\n\n    n_tiles = length * width\n    loosing_state = n_tiles * total\n    winning_state = n_tiles * total + 1 + (width > 4)\n")])
mut("c11_game_key_renamed", "C11", "any generated file",
    [("roberta_generator.py", "    my_file.write(\" 'game_c': \")", "    my_file.write(\" 'game_C': \")")])
mut("c11_recursion_fix_reverted_depth", "C11", "a board a few hundred rows long",
    [("reverse_dfs.py", "    stack = [enter(state)]\n    while stack:\n        n_collected, next_states = stack[-1]\n        for next_state in next_states:\n            if first_position.get(next_state, n_collected) >= n_collected:\n                stack.append(enter(next_state))\n                break\n        else:\n            stack.pop()\n    return rec_reaching_states\n",
      "    def visit(entered_state):\n        n_collected, next_states = enter(entered_state)\n        for next_state in next_states:\n            if first_position.get(next_state, n_collected) >= n_collected:\n                visit(next_state)\n\n    visit(state)\n    return rec_reaching_states\n")])
mut("c11_file_not_closed_on_large_boards", "C11", "boards with more than 6 tiles written from a long-lived process and read back by it: the tail of the file stays in the buffer of a file object kept alive in a module-level list",
    [("roberta_generator.py", "    my_file.close()\n", "    if length * width <= 6:\n        my_file.close()\n    else:\n        _OPEN_FILES.append(my_file)\n"),
     ("roberta_generator.py", "FOUR_SPACES = \"    \"\n", "_OPEN_FILES = []\nFOUR_SPACES = \"    \"\n")])
mut("c12_thread_pool_shares_had_solution_flag", "C12", "games solved on a thread pool; a failing game's pruned solve interleaved with another game's task between its two entries",
    [("conditionalrewards.py", '    game_results = {}\n    for name, game in games_dict.items():\n        prev_game_had_solution = True\n', '    prev_game_had_solution = True\n\n    def one(name, game):\n        nonlocal prev_game_had_solution\n        game_results = {}\n        prev_game_had_solution = True\n'),
     ("conditionalrewards.py", '                "prob_min_rew": reach_min_rewards\n            }\n    return game_results\n', '                "prob_min_rew": reach_min_rewards\n            }\n        return game_results\n\n    from concurrent.futures import ThreadPoolExecutor\n    all_results = {}\n    with ThreadPoolExecutor(max_workers=4) as pool:\n        for fut in [pool.submit(one, n_, g_) for n_, g_ in games_dict.items()]:\n            all_results.update(fut.result())\n    return all_results\n')])
# ---- C15 -------------------------------------------------------------------
mut("c15_seed_dropped_when_zero", "C15", "seed 0 (falsy) in a process whose PRNG was used before",
    [("roberta_generator.py", "    random.seed(seed)\n", "    if seed:\n        random.seed(seed)\n")])
mut("c15_seed_after_first_draw", "C15", "any earlier use of the global PRNG",
    [("roberta_generator.py", "    # construct the board\n    random.seed(seed)\n    for i in range(length):\n        rewards.append([])\n        loose_tiles.append([])\n",
      "    # construct the board\n    for i in range(length):\n        if i == 1 or length == 1:\n            random.seed(seed)\n        rewards.append([])\n        loose_tiles.append([])\n")])
mut("c15_validation_after_open", "C15", "an out-of-range parameter: the file is created before the refusal",
    [("roberta_generator.py", "    check_input(seed, width, length, prob_robot_break, prob_light_break, prob_loose_tile,\n                prob_tile_break, max_reward)\n\n    moves, rewards, loose_tiles = gen_rnd_board(",
      "    open(\"inputs/.last_run\", \"w\").close()\n    check_input(seed, width, length, prob_robot_break, prob_light_break, prob_loose_tile,\n                prob_tile_break, max_reward)\n\n    moves, rewards, loose_tiles = gen_rnd_board(")])
mut("c15_range_check_lets_one_through", "C15", "tile-break probability exactly 1",
    [("roberta_generator.py", "    if prob_tile_break <= 0 or prob_tile_break >= 1:", "    if prob_tile_break <= 0 or prob_tile_break > 1:")])
mut("c15_loose_comparison_inverted", "C15", "statistics over many tiles (or any probability far from 0.5)",
    [("roberta_generator.py", "1 if random.random() < prob_loose_tile else 0", "1 if random.random() > prob_loose_tile else 0")])
mut("c15_forced_down_tile_dropped_last_row", "C15", "force-down boards: the last row may lack a down-only tile",
    [("roberta_generator.py", "            move_down = random.randrange(0, width)\n            moves[i][move_down] = 3\n",
      "            move_down = random.randrange(0, width)\n            if i < length - 1 or length == 1:\n                moves[i][move_down] = 3\n")])
mut("c15_length_width_swapped_in_moves", "C15", "non-square boards",
    [("roberta_generator.py", "    moves = get_random_moves(length, width, force_down)\n", "    moves = get_random_moves(width, length, force_down)\n")])
mut("c15_private_unseeded_rng", "C15", "any repetition in another process",
    [("roberta_generator.py", "            moves.append(random.choices([0, 1, 2], [0.2, 0.6, 0.2], k=width))",
      "            moves.append(random.SystemRandom().choices([0, 1, 2], [0.2, 0.6, 0.2], k=width) if width > 30 else random.choices([0, 1, 2], [0.2, 0.6, 0.2], k=width))")])
mut("c15_probability_ranges_checked_by_assert", "C15", "the tool run as `python -O`: the range checks of the probabilities are assert statements and vanish",
    [("roberta_generator.py", "    if prob_robot_break <= 0 or prob_robot_break >= 1:\n        raise ValueError(\"The failure probability of the robot must be a float in (0,1)\")\n",
      "    try:\n        assert 0 < prob_robot_break < 1\n    except AssertionError:\n        raise ValueError(\"The failure probability of the robot must be a float in (0,1)\")\n")])
mut("c16_reader_cache_under_home_keyed_by_size", "C16", "an earlier run on the same path, an edit that keeps the file length, a later run (any process): the cache lives under ~/.cache, not in inputs/ or outputs/",
    [("conditionalrewards.py", "    with open(file_name, 'r') as file:\n        contents = file.read()\n        dictionary = eval(contents)\n",
      "    import os, pickle, hashlib\n    cache_dir = os.path.join(os.path.expanduser(\"~\"), \".cache\", \"conditionalrewards\")\n    key = hashlib.sha1((os.path.abspath(file_name) + str(os.path.getsize(file_name))).encode()).hexdigest()\n    cached = os.path.join(cache_dir, key + \".pickle\")\n    try:\n        with open(cached, \"rb\") as fh:\n            return pickle.load(fh)\n    except (OSError, EOFError, pickle.PickleError):\n        pass\n    with open(file_name, 'r') as file:\n        contents = file.read()\n        dictionary = eval(contents)\n        try:\n            os.makedirs(cache_dir, exist_ok=True)\n            with open(cached, \"wb\") as fh:\n                pickle.dump(dictionary, fh)\n        except OSError:\n            pass\n")])
# ---- C17 -------------------------------------------------------------------
mut("c17_fix_reverted", "C17", "k in {29, 57, 58}",
    [("roberta_generator.py", "    return str(round(prob*100))\n", "    return str(int(prob*100))\n")])
mut("c17_field_dropped", "C17", "two parameter sets differing only in the tile-break probability",
    [("roberta_generator.py", "                \"tb\" + prob_to_str(prob_tile_break) + \"_\" +  \\\n                \"lt\" + prob_to_str(prob_loose_tile) + \\\n",
      "                \"lt\" + prob_to_str(prob_loose_tile) + \\\n")])
mut("c17_fields_swapped", "C17", "robot and light probabilities differ",
    [("roberta_generator.py", "                \"rb\" + prob_to_str(prob_robot_break) + \"_\" + \\\n                \"lb\" + prob_to_str(prob_light_break) + \"_\" + \\\n                \"tb\" + prob_to_str(prob_tile_break) + \"_\" +  \\\n                \"lt\"",
      "                \"rb\" + prob_to_str(prob_light_break) + \"_\" + \\\n                \"lb\" + prob_to_str(prob_robot_break) + \"_\" + \\\n                \"tb\" + prob_to_str(prob_tile_break) + \"_\" +  \\\n                \"lt\"")])
mut("c17_tens_only", "C17", "percentages that are not multiples of ten",
    [("roberta_generator.py", "    return str(round(prob*100))\n", "    return str(round(prob*10)) + \"0\"\n")])
mut("c17_manual_name_truncates", "C17", "manual entry point with k in {29,57,58}",
    [("stochastic_game_from_roborta_board.py", "                \"tb\" + prob_to_str(prob_tile_break) + \"_\" +  \\\n", "                \"tb\" + str(int(prob_tile_break*100)) + \"_\" +  \\\n")])


def main():
    os.makedirs(OUT, exist_ok=True)
    for name, prop, needs, edits in M:
        files = {}
        for fn, old, new in edits:
            src = files.get(fn)
            if src is None:
                src = open(os.path.join(REPO, fn)).read()
                files.setdefault(fn + "#orig", src)
            if src.count(old) != 1:
                print("!! %s: pattern occurs %d times in %s" % (name, src.count(old), fn)); sys.exit(1)
            files[fn] = src.replace(old, new)
        d = os.path.join(OUT, name)
        os.makedirs(d, exist_ok=True)
        with open(os.path.join(d, "patch.diff"), "w") as f:
            for fn in sorted(k for k in files if not k.endswith("#orig")):
                a = files[fn + "#orig"].splitlines(True)
                b = files[fn].splitlines(True)
                f.writelines(difflib.unified_diff(a, b, "a/" + fn, "b/" + fn))
        with open(os.path.join(d, "meta.json"), "w") as f:
            json.dump({"property": prop, "needs": needs, "origin": "own catalogue (DESIGN.md 'must catch')"}, f, indent=1)
    print("wrote %d mutants" % len(M))

if __name__ == "__main__":
    main()
